fn main() {
    // only re-run when this script changes (otherwise any new file in the
    // package directory, e.g. a build log, dirties the crate)
    println!("cargo:rerun-if-changed=build.rs");
    // let dlsym()-based callers (std weak symbols, getrandom 0.3) find the
    // interposed symbols defined by the simulator binary
    println!("cargo:rustc-link-arg-bins=-rdynamic");
    println!("cargo::rustc-check-cfg=cfg(sos_verif)");
}

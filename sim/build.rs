fn main() {
    // let dlsym()-based callers (std weak symbols, getrandom 0.3) find the
    // interposed symbols defined by the simulator binary
    println!("cargo:rustc-link-arg-bins=-rdynamic");
    println!("cargo::rustc-check-cfg=cfg(sos_verif)");
}

//! Family `filew` (C17): external file blobs.
//!
//! Two devices of one account and the real server. Device 0 (and in some runs
//! device 1) edits file secrets whose content lives in external encrypted
//! blobs; devices sync their event logs through the real sync path; the
//! transfer of the blobs themselves is driven by `settle`, a harness stand-in
//! for `sos_net`'s transfer queue that talks to the real file handlers of the
//! server router (upload / download / move / delete / compare). Hostile and
//! damaged uploads are injected as transport faults.
//!
//! Oracles (after every step on the device that acted, after `settle` on the
//! settled device and the server):
//!  * replay(file event log) == blobs named by the live file secrets
//!  * blobs on disk == replay(file event log): none missing, none left behind
//!  * every blob's name == SHA-256(bytes); decrypt(blob) == original content
//!  * a refused upload leaves the server's file tree byte-for-byte unchanged
//!    and never exposes a file under the requested name

use crate::common::*;
use crate::device::*;
use crate::net::*;
use crate::netw::{NetDevice, NetWorld};
use crate::rng::Rng;
use http::Method;
use indexmap::IndexSet;
use serde_json::{json, Value};
use sos_account::Account;
use sos_core::events::FileEvent;
use sos_core::{ExternalFile, ExternalFileName, SecretPath};
use sos_protocol::transfer::FileSet;
use sos_sync::StorageEventLogs;
use sos_vault::secret::{FileContent, Secret};
use std::collections::{BTreeMap, BTreeSet};
use std::path::{Path, PathBuf};
use std::sync::atomic::{AtomicBool, Ordering::SeqCst};
use std::sync::Arc;

const N_SLOTS: u64 = 6;

pub fn generate(property: &str, seed: u64, tier: Tier) -> Plan {
    let mut r = Rng::new(seed).fork("filew");
    let n_steps = match tier {
        Tier::Quick => r.range(10, 30),
        Tier::Thorough => r.range(16, 48),
    } as usize;
    // The property quantifies over histories edited on ONE device and synced
    // to a second one. Two editing devices (supported by the executor for
    // exploration: set "two_editors" in a plan by hand) run into conflicts
    // between independently merged folder and file logs that the property
    // does not speak about, so generated plans keep a single editor. The draw
    // stays so that the rest of the plan of a seed is unchanged.
    let _two_editors_draw = r.chance(1, 4);
    let two_editors = false;
    let mut w: Vec<(&str, u64)> = vec![
        ("xcreate", 10),
        ("xupdate", 5),
        ("update", 3),
        ("create", 2),
        ("move", 5),
        ("delete", 5),
        ("archive", 2),
        ("unarchive", 2),
        ("fcreate", 3),
        ("fdelete", 3),
        ("sync", 6),
        ("settle", 6),
        ("badupload", 8),
        ("restart", 2),
    ];
    for (name, x) in w.iter_mut() {
        if *name == "xcreate" {
            continue;
        }
        if r.chance(1, 7) {
            *x = 0;
        } else if r.chance(1, 5) {
            *x *= 3;
        }
    }
    let weights: Vec<u64> = w.iter().map(|x| x.1).collect();
    let mut steps = vec![];
    let mut val = seed.wrapping_mul(6151) % 1_000_000;
    steps.push(json!({"op":"fcreate","dev":0,"fslot":0,"name":0,"cipher":r.below(2),"kdf":r.below(2),"val":val}));
    for _ in 0..n_steps {
        val += 1;
        let k = w[r.weighted(&weights)].0;
        let editor = if two_editors && r.chance(1, 3) { 1 } else { 0 };
        let any_dev = r.below(2);
        let slot = r.below(N_SLOTS);
        let any_folder = |r: &mut Rng| -> u64 { *r.pick(&[0u64, 0, 4, 4, 5]) };
        let s = match k {
            "xcreate" => json!({"op":"xcreate","dev":editor,"slot":slot,"folder":any_folder(&mut r),"val":val,"size":r.below(5),
                "label":r.below(3),"tags":r.below(8),"fav":false,"attach":r.below(3)}),
            "xupdate" => json!({"op":"xupdate","dev":editor,"slot":slot,"val":val,"size":r.below(5),"label":r.below(3),"tags":r.below(8),"fav":false}),
            "update" => json!({"op":"update","dev":editor,"slot":slot,"val":val,"label":r.below(3),"tags":r.below(8),"fav":false,"meta_only":r.chance(1,2)}),
            "create" => json!({"op":"create","dev":editor,"slot":slot,"folder":any_folder(&mut r),"kind":r.below(15),"val":val,
                "label":r.below(3),"tags":r.below(8),"fav":false,"big":false}),
            "move" => json!({"op":"move","dev":editor,"slot":slot,"to":any_folder(&mut r)}),
            "delete" => json!({"op":"delete","dev":editor,"slot":slot}),
            "archive" => json!({"op":"archive","dev":editor,"slot":slot}),
            "unarchive" => json!({"op":"unarchive","dev":editor,"slot":slot}),
            "fcreate" => json!({"op":"fcreate","dev":editor,"fslot":r.below(2),"name":r.below(2),"cipher":r.below(2),"kdf":r.below(2),"val":val}),
            "fdelete" => json!({"op":"fdelete","dev":editor,"fslot":r.below(2)}),
            "sync" => json!({"op":"sync","dev":any_dev}),
            "settle" => json!({"op":"settle","dev":any_dev}),
            "badupload" => json!({"op":"badupload","dev":any_dev,"kind":r.below(7),"pick":r.below(64),"at":r.below(1<<20)}),
            "restart" => json!({"op":"restart","dev":any_dev}),
            other => json!({"op":other,"dev":0}),
        };
        steps.push(s);
    }
    steps.push(json!({"op":"quiesce","pin":true}));
    Plan {
        family: "filew".into(),
        property: property.into(),
        seed,
        config: json!({"device_db":[r.chance(1,2), r.chance(1,2)], "server_db": r.chance(1,2), "two_editors": two_editors,
            "system_folders": true}),
        steps,
    }
}

/// Pending transfer operations of one device (what `sos_net` queues from the
/// file mutation events of local edits).
#[derive(Default)]
struct Queue(Vec<FileEvent>);

struct FileWorld {
    /// a device's own file events were discarded by a sync although its file
    /// log and the server's had no event in common (both started from an
    /// empty file log: there is no root commit to merge from)
    rootless_force_merge: bool,
    /// a device whose sync reported success still held a file log behind the
    /// server's and uploaded a blob the server's log had already deleted
    stale_reupload: bool,
    /// both devices edit
    two_editors: bool,
    w: NetWorld,
    queues: Vec<Queue>,
    /// per device: whether the last sync succeeded and nothing was edited since
    clean: Vec<bool>,
}

async fn file_events_from(dev: &Device, skip: usize) -> Vec<FileEvent> {
    use futures::{pin_mut, StreamExt};
    use sos_core::events::EventLog;
    let a = dev.lock().await;
    let Ok(l) = a.file_log().await else { return vec![] };
    let l = l.read().await;
    let stream = l.event_stream(false).await;
    pin_mut!(stream);
    let mut out = vec![];
    let mut i = 0usize;
    while let Some(Ok((_, ev))) = stream.next().await {
        if i >= skip {
            out.push(ev);
        }
        i += 1;
    }
    out
}

async fn file_log_len(dev: &Device) -> usize {
    use sos_core::events::EventLog;
    let a = dev.lock().await;
    let Ok(l) = a.file_log().await else { return 0 };
    let l = l.read().await;
    l.tree().len()
}

fn list_tree(root: &Path) -> BTreeMap<String, String> {
    // relative path -> sha256 of content (every file, whatever its name)
    let mut out = BTreeMap::new();
    fn walk(base: &Path, p: &Path, out: &mut BTreeMap<String, String>) {
        let Ok(rd) = std::fs::read_dir(p) else { return };
        for e in rd.flatten() {
            let path = e.path();
            if path.is_dir() {
                walk(base, &path, out);
            } else if let Ok(b) = std::fs::read(&path) {
                let rel = path.strip_prefix(base).unwrap_or(&path).to_string_lossy().to_string();
                out.insert(rel, sha256_hex(&b));
            }
        }
    }
    walk(root, root, &mut out);
    out
}

fn fmt_set(s: &BTreeSet<String>) -> String {
    s.iter().take(4).cloned().collect::<Vec<_>>().join(", ")
}

fn as_strings(s: &IndexSet<ExternalFile>) -> BTreeSet<String> {
    s.iter().map(|f| f.to_string()).collect()
}

/// The external blobs the live secrets of a device name: (folder/secret/name).
async fn expected_from_secrets(dev: &Device) -> Result<BTreeSet<String>, String> {
    let a = dev.lock().await;
    let folders = a.list_folders().await.map_err(|e| e.to_string())?;
    let mut out = BTreeSet::new();
    for f in folders {
        let ids = a.list_secret_ids(f.id()).await.map_err(|e| e.to_string())?;
        for id in ids {
            let (row, _) = a.read_secret(&id, Some(f.id())).await.map_err(|e| e.to_string())?;
            let mut add = |s: &Secret| {
                if let Secret::File { content: FileContent::External { checksum, .. }, .. } = s {
                    out.insert(format!("{}/{}/{}", f.id(), id, hex::encode(checksum)));
                }
            };
            add(row.secret());
            for field in row.secret().user_data().fields() {
                add(field.secret());
            }
        }
    }
    Ok(out)
}

/// C17 oracle on one client device.
async fn check_device(dev: &Device, role: &str, check_secrets: bool, strict_blobs: bool, rec: &mut Recorder, when: &str) {
    if dev.account.is_none() {
        return;
    }
    let backend = dev.kind.name();
    let (paths, canonical) = {
        let a = dev.lock().await;
        let p = a.paths();
        let c = match a.canonical_files().await {
            Ok(c) => c,
            Err(e) => {
                rec.violate("C17", &format!("C17/{role}/{backend}/file_log_unreadable"), format!("{} after {when}: {e}", dev.name));
                return;
            }
        };
        (p, c)
    };
    let canonical = as_strings(&canonical);
    rec.stats.count("c17.device_checks");
    // A device that follows another one sees a new folder's secrets one sync
    // later than the file log entry (folders travel in two phases): log vs
    // secrets is only compared where nothing is in flight (`check_secrets`).
    if check_secrets {
    match expected_from_secrets(dev).await {
        Ok(expect) => {
            let missing: BTreeSet<String> = expect.difference(&canonical).cloned().collect();
            let extra: BTreeSet<String> = canonical.difference(&expect).cloned().collect();
            if !missing.is_empty() {
                rec.violate(
                    "C17",
                    &format!("C17/{role}/{backend}/log_vs_secrets/file_of_live_secret_not_in_log"),
                    format!("{} after {when}: live file secrets name blobs the replayed file log does not hold: {}", dev.name, fmt_set(&missing)),
                );
            }
            if !extra.is_empty() {
                rec.violate(
                    "C17",
                    &format!("C17/{role}/{backend}/log_vs_secrets/log_names_file_of_no_live_secret"),
                    format!("{} after {when}: the replayed file log names blobs that no live secret refers to: {}", dev.name, fmt_set(&extra)),
                );
            }
        }
        Err(e) => {
            rec.violate("C17", &format!("C17/{role}/{backend}/secrets_unreadable"), format!("{} after {when}: {e}", dev.name));
        }
    }
    }
    let listing = match sos_external_files::list_external_files(&paths).await {
        Ok(l) => l,
        Err(e) => {
            rec.violate("C17", &format!("C17/{role}/{backend}/blob_listing_failed"), format!("{} after {when}: {e}", dev.name));
            return;
        }
    };
    let listed = as_strings(&listing);
    if strict_blobs {
        let missing: BTreeSet<String> = canonical.difference(&listed).cloned().collect();
        let left: BTreeSet<String> = listed.difference(&canonical).cloned().collect();
        if !missing.is_empty() {
            rec.violate(
                "C17",
                &format!("C17/{role}/{backend}/blobs_vs_log/blob_missing"),
                format!("{} after {when}: blobs named by the file log are not on disk: {}", dev.name, fmt_set(&missing)),
            );
        }
        if !left.is_empty() {
            rec.violate(
                "C17",
                &format!("C17/{role}/{backend}/blobs_vs_log/blob_left_behind"),
                format!("{} after {when}: blobs on disk that the file log does not name (deleted secret or folder): {}", dev.name, fmt_set(&left)),
            );
        }
    }
    // content addressing and decryption
    for f in listing.iter() {
        let path = paths.into_file_path(f);
        let Ok(bytes) = std::fs::read(&path) else { continue };
        rec.stats.count("c17.blobs_hashed");
        let name = f.file_name().to_string();
        if sha256_hex(&bytes) != name {
            rec.violate(
                "C17",
                &format!("C17/{role}/{backend}/blob_name_is_not_hash_of_bytes"),
                format!("{} after {when}: {f}: sha256(bytes) = {}", dev.name, sha256_hex(&bytes)),
            );
            continue;
        }
        if !canonical.contains(&f.to_string()) {
            continue;
        }
        let want = XPLAIN.lock().ok().and_then(|g| g.get(&name).cloned());
        let got = {
            let a = dev.lock().await;
            a.download_file(f.vault_id(), f.secret_id(), f.file_name()).await
        };
        match (got, want) {
            (Ok(plain), Some(w)) => {
                rec.stats.count("c17.blobs_decrypted");
                if sha256_hex(&plain) != w {
                    rec.violate(
                        "C17",
                        &format!("C17/{role}/{backend}/blob_decrypts_to_other_content"),
                        format!("{} after {when}: {f} decrypts to {} bytes that are not the original file", dev.name, plain.len()),
                    );
                }
            }
            (Err(e), _) => {
                rec.violate(
                    "C17",
                    &format!("C17/{role}/{backend}/blob_does_not_decrypt"),
                    format!("{} after {when}: {f}: {e}", dev.name),
                );
            }
            (Ok(_), None) => {}
        }
    }
}

async fn server_paths(w: &NetWorld) -> Option<(Arc<sos_core::Paths>, BTreeSet<String>)> {
    let id = w.devices[0].dev.account_id;
    let s = w.server.account(&id).await?;
    let s = s.read().await;
    use sos_server_storage::ServerAccountStorage;
    let paths = s.paths();
    let canonical = s.canonical_files().await.ok()?;
    Some((paths, as_strings(&canonical)))
}


/// A correct upload whose body arrives in two parts with an observer in
/// between (a slow connection; another device, a listing or a backup looking
/// at the server meanwhile): when the second part is asked for, the server has
/// consumed the first. At that instant everything the server's own
/// `list_external_files` names (what `compare_files` and downloads are answered
/// from) must hash to its name. The first finding is left in `seen`.
fn observed_body(bytes: &[u8], spaths: Arc<sos_core::Paths>, seen: Arc<std::sync::Mutex<Option<String>>>) -> axum::body::Body {
    let cut = bytes.len() / 2;
    let first = bytes::Bytes::copy_from_slice(&bytes[..cut]);
    let second = bytes::Bytes::copy_from_slice(&bytes[cut..]);
    let st = futures::stream::unfold((0u8, first, second, spaths, seen), |(n, first, second, spaths, seen)| async move {
        match n {
            0 => Some((Ok::<_, std::io::Error>(first.clone()), (1, first, second, spaths, seen))),
            1 => {
                // let the handler get the first part to its file
                for _ in 0..4 {
                    tokio::task::yield_now().await;
                }
                if let Ok(listing) = sos_external_files::list_external_files(&spaths).await {
                    for f in listing.iter() {
                        let path = spaths.into_file_path(f);
                        if let Ok(b) = std::fs::read(&path) {
                            if sha256_hex(&b) != f.file_name().to_string() {
                                let mut g = seen.lock().unwrap();
                                if g.is_none() {
                                    *g = Some(format!("{f}: {} bytes on disk under the content-addressed name while the upload was half way; sha256 = {}", b.len(), sha256_hex(&b)));
                                }
                            }
                        }
                    }
                }
                Some((Ok(second.clone()), (2, first, second, spaths, seen)))
            }
            _ => None,
        }
    });
    axum::body::Body::from_stream(st)
}

/// C17 oracle on the server. `settled`: a device whose log equals the
/// server's has just completed its transfers.
async fn check_server(w: &NetWorld, settled: bool, stale_reupload: bool, rec: &mut Recorder, when: &str) {
    let Some((paths, canonical)) = server_paths(w).await else { return };
    let Ok(listing) = sos_external_files::list_external_files(&paths).await else { return };
    let listed = as_strings(&listing);
    rec.stats.count("c17.server_checks");
    for f in listing.iter() {
        let path = paths.into_file_path(f);
        let Ok(bytes) = std::fs::read(&path) else { continue };
        if sha256_hex(&bytes) != f.file_name().to_string() {
            rec.violate(
                "C17",
                "C17/server/blob_name_is_not_hash_of_bytes",
                format!("after {when}: {f}: sha256(bytes) = {}", sha256_hex(&bytes)),
            );
        }
    }
    if settled {
        let missing: BTreeSet<String> = canonical.difference(&listed).cloned().collect();
        let left: BTreeSet<String> = listed.difference(&canonical).cloned().collect();
        if !missing.is_empty() {
            rec.violate(
                "C17",
                "C17/server/blobs_vs_log/blob_missing_after_transfers_settled",
                format!("after {when}: {}", fmt_set(&missing)),
            );
        }
        if !left.is_empty() {
            rec.violate(
                "C17",
                &format!("C17/server/blobs_vs_log/blob_left_behind_after_transfers_settled{}", if stale_reupload { "/reuploaded_by_device_with_stale_file_log" } else { "" }),
                format!("after {when}: {}", fmt_set(&left)),
            );
        }
    }
}

fn file_route(f: &ExternalFile) -> String {
    format!("/api/v1/sync/file/{f}")
}

impl FileWorld {
    /// "editor": the only device that edits; "follower": never edits;
    /// "peer": both devices edit (each also follows the other)
    fn role(&self, i: usize) -> &'static str {
        if self.two_editors && self.rootless_force_merge {
            "peer_after_rootless_file_log_merge"
        } else if self.two_editors {
            "peer"
        } else if i == 0 {
            "editor"
        } else {
            "follower"
        }
    }

    /// Sync device `i`; notice when the sync throws away file events the
    /// device had recorded itself.
    async fn sync(&mut self, i: usize, rec: &mut Recorder) -> String {
        use crate::netoracle as no;
        let commits = |l: Option<&Vec<no::RecT>>| -> BTreeSet<[u8; 32]> {
            l.map(|v| v.iter().map(|r| r.commit).collect()).unwrap_or_default()
        };
        let dev_before = no::device_logs(&self.w.devices[i].dev).await.unwrap_or_default();
        let srv_before = no::server_logs(&self.w).await.unwrap_or_default();
        let c = self.w.sync(i, rec).await;
        let dev_after = no::device_logs(&self.w.devices[i].dev).await.unwrap_or_default();
        let b = commits(dev_before.get("files"));
        let a = commits(dev_after.get("files"));
        let s = commits(srv_before.get("files"));
        let lost: Vec<&[u8; 32]> = b.difference(&a).collect();
        if !lost.is_empty() {
            if b.is_disjoint(&s) && !s.is_empty() {
                rec.stats.probe("c17.file_log_force_merged_without_common_root");
                self.rootless_force_merge = true;
            } else {
                rec.violate(
                    "C17",
                    &format!("C17/{}/file_event_dropped_by_sync", self.role(i)),
                    format!("sync of d{i} ({c}) removed {} file event(s) this device had recorded although its file log shared events with the server's", lost.len()),
                );
            }
        }
        c
    }

    async fn client(&mut self, i: usize) -> Result<SimClient, String> {
        self.w.ensure_bridge(i).await?;
        Ok(self.w.devices[i].bridge.as_ref().unwrap().client.clone())
    }

    /// Stand-in for the transfer queue of `sos_net`: replay the queued file
    /// mutation events against the server's file routes, then upload what the
    /// server lacks and fetch what this device lacks.
    async fn settle(&mut self, i: usize, rec: &mut Recorder) -> String {
        let client = match self.client(i).await {
            Ok(c) => c,
            Err(e) => return format!("err:{e}"),
        };
        let paths = { self.w.devices[i].dev.lock().await.paths() };
        let mut problems = 0u32;
        let queued: Vec<FileEvent> = std::mem::take(&mut self.queues[i].0);
        let canonical_now = {
            let a = self.w.devices[i].dev.lock().await;
            a.canonical_files().await.unwrap_or_default()
        };
        for ev in queued {
            match ev {
                FileEvent::CreateFile(owner, name) => {
                    let f = ExternalFile::new(owner, name);
                    if !canonical_now.contains(&f) {
                        // deleted or moved since (here or, per the merged file log,
                        // elsewhere): an upload would only plant a stale blob
                        rec.stats.count("c17.upload_skipped_not_canonical");
                        continue;
                    }
                    let path = paths.into_file_path(&f);
                    let Ok(bytes) = std::fs::read(&path) else { continue }; // moved or deleted since
                    // uploads of two bytes or more arrive in two parts with an
                    // observer of the server's blob store in between
                    let seen = Arc::new(std::sync::Mutex::new(None));
                    let body = match (bytes.len() >= 2, server_paths(&self.w).await) {
                        (true, Some((sp, _))) => {
                            rec.stats.count("c17.uploads_observed_half_way");
                            observed_body(&bytes, sp, seen.clone())
                        }
                        _ => axum::body::Body::from(bytes.clone()),
                    };
                    let res = client.file_request("upload", Method::PUT, &file_route(&f), None, Some(body), bytes).await;
                    if let Some(what) = seen.lock().unwrap().take() {
                        rec.violate("C17", "C17/server/partially_received_file_exposed", what);
                    }
                    match res {
                        Ok((st, _, _)) if st.is_success() || st.as_u16() == 304 => rec.stats.count("c17.uploads"),
                        Ok((st, _, body)) => {
                            problems += 1;
                            rec.violate(
                                "C17",
                                &format!("C17/server/correct_upload_refused/{}", st.as_u16()),
                                format!("upload of {f} (bytes hash to the name) answered {st}: {}", String::from_utf8_lossy(&body).chars().take(120).collect::<String>()),
                            );
                        }
                        Err(_) => problems += 1,
                    }
                }
                FileEvent::MoveFile { name, from, dest } => {
                    let f = ExternalFile::new(from, name);
                    let q = format!("vault_id={}&secret_id={}&name={}", dest.0, dest.1, name);
                    match client.file_request("move", Method::POST, &file_route(&f), Some(&q), None, vec![]).await {
                        Ok((st, _, _)) if st.is_success() => rec.stats.count("c17.moves"),
                        Ok((st, _, _)) if st.as_u16() == 404 || st.as_u16() == 409 => rec.stats.count("c17.moves_noop"),
                        Ok(_) | Err(_) => problems += 1,
                    }
                }
                FileEvent::DeleteFile(owner, name) => {
                    let f = ExternalFile::new(owner, name);
                    match client.file_request("delete", Method::DELETE, &file_route(&f), None, None, vec![]).await {
                        Ok((st, _, _)) if st.is_success() => rec.stats.count("c17.deletes"),
                        Ok((st, _, _)) if st.as_u16() == 404 => rec.stats.count("c17.deletes_noop"),
                        Ok(_) | Err(_) => problems += 1,
                    }
                }
                _ => {}
            }
        }
        // compare: what the server lacks / what this device lacks
        let canonical = {
            let a = self.w.devices[i].dev.lock().await;
            a.canonical_files().await.unwrap_or_default()
        };
        let set = match client.compare_files(FileSet(canonical.clone())).await {
            Ok(s) => s,
            Err(e) => return format!("err:compare:{}", short_err(&e.to_string())),
        };
        let server_canonical = server_paths(&self.w).await.map(|x| x.1).unwrap_or_default();
        for f in set.uploads.0.iter() {
            let path = paths.into_file_path(f);
            let Ok(bytes) = std::fs::read(&path) else { continue };
            if !server_canonical.contains(&f.to_string()) {
                // the server's own file log does not name this file (any more):
                // this device's log is behind although its sync succeeded
                rec.stats.probe("c17.upload_from_stale_file_log");
                self.stale_reupload = true;
            }
            match client
                .file_request("upload", Method::PUT, &file_route(f), None, Some(axum::body::Body::from(bytes.clone())), bytes)
                .await
            {
                Ok((st, _, _)) if st.is_success() || st.as_u16() == 304 => rec.stats.count("c17.uploads"),
                _ => problems += 1,
            }
        }
        // downloads: canonical files this device does not hold yet
        for f in canonical.iter() {
            let path = paths.into_file_path(f);
            if path.exists() {
                continue;
            }
            match client.file_request("download", Method::GET, &file_route(f), None, None, vec![]).await {
                Ok((st, _, body)) if st.is_success() => {
                    if sha256_hex(&body) != f.file_name().to_string() {
                        rec.violate(
                            "C17",
                            "C17/server/download_is_not_the_named_content",
                            format!("GET {f}: sha256(body) = {}", sha256_hex(&body)),
                        );
                        continue;
                    }
                    if let Some(p) = path.parent() {
                        let _ = std::fs::create_dir_all(p);
                    }
                    let _ = std::fs::write(&path, &body);
                    rec.stats.count("c17.downloads");
                }
                Ok((st, _, _)) if st.as_u16() == 404 => {
                    // not uploaded yet by the device that holds it
                    problems += 1;
                    rec.stats.count("c17.download_not_available_yet");
                }
                _ => problems += 1,
            }
        }
        if problems == 0 {
            "ok".into()
        } else {
            format!("partial:{problems}")
        }
    }

    /// A damaged or hostile upload: must be refused, must leave the server's
    /// file tree unchanged, must not be visible under the requested name.
    async fn bad_upload(&mut self, i: usize, s: &Value, rec: &mut Recorder) -> String {
        let client = match self.client(i).await {
            Ok(c) => c,
            Err(e) => return format!("err:{e}"),
        };
        let Some((spaths, _)) = server_paths(&self.w).await else { return "skip".into() };
        let dpaths = { self.w.devices[i].dev.lock().await.paths() };
        let local = sos_external_files::list_external_files(&dpaths).await.unwrap_or_default();
        if local.is_empty() {
            return "skip".into();
        }
        let f = local.get_index(jusize(s, "pick") % local.len()).cloned().unwrap();
        let Ok(good) = std::fs::read(dpaths.into_file_path(&f)) else { return "skip".into() };
        let at = jusize(s, "at");
        let kind = ju64(s, "kind") % 7;
        let root = spaths.into_files_dir();
        let before = list_tree(&root);
        let target_existed = spaths.into_file_path(&f).exists();
        let (label, route, body, tap): (&str, String, axum::body::Body, Vec<u8>) = match kind {
            0 => {
                let mut b = good.clone();
                if b.is_empty() {
                    b.push(1);
                } else {
                    let k = at % b.len();
                    b[k] ^= 1 << (at % 8);
                }
                ("altered", file_route(&f), axum::body::Body::from(b.clone()), b)
            }
            1 => {
                if good.is_empty() {
                    return "skip".into();
                }
                let b = good[..at % good.len()].to_vec();
                ("truncated", file_route(&f), axum::body::Body::from(b.clone()), b)
            }
            2 => {
                if good.is_empty() {
                    return "skip".into();
                }
                ("empty", file_route(&f), axum::body::Body::from(Vec::<u8>::new()), vec![])
            }
            3 => {
                // connection breaks mid-body
                let cut = if good.is_empty() { 0 } else { at % good.len() };
                let first = good[..cut].to_vec();
                let chunks: Vec<Result<bytes::Bytes, std::io::Error>> = vec![
                    Ok(bytes::Bytes::from(first.clone())),
                    Err(std::io::Error::new(std::io::ErrorKind::ConnectionReset, "simulated reset")),
                ];
                ("stream_error", file_route(&f), axum::body::Body::from_stream(futures::stream::iter(chunks)), first)
            }
            4 => {
                // valid bytes under a name that is not their hash
                let mut n = [0u8; 32];
                for (k, x) in n.iter_mut().enumerate() {
                    *x = (at as u8).wrapping_mul(31).wrapping_add(k as u8);
                }
                let other = ExternalFile::new(SecretPath(*f.vault_id(), *f.secret_id()), ExternalFileName::from(n));
                ("wrong_name", file_route(&other), axum::body::Body::from(good.clone()), good.clone())
            }
            5 => {
                // extra bytes appended
                let mut b = good.clone();
                b.extend_from_slice(b"tail");
                ("appended", file_route(&f), axum::body::Body::from(b.clone()), b)
            }
            _ => {
                // other content for a name the server may already hold
                let b = format!("other content {at}").into_bytes();
                ("other_content", file_route(&f), axum::body::Body::from(b.clone()), b)
            }
        };
        rec.stats.fault(&format!("upload.{label}"));
        let res = client.file_request("badupload", Method::PUT, &route, None, Some(body), tap).await;
        let after = list_tree(&root);
        let status = match &res {
            Ok((st, _, _)) => st.as_u16(),
            Err(_) => 0,
        };
        rec.case(&format!("badupload:{label}:{}:{}", status, target_existed));
        if let Ok((st, _, _)) = &res {
            if st.is_success() {
                rec.violate(
                    "C17",
                    &format!("C17/server/bad_upload_accepted/{label}"),
                    format!("PUT {route} with a body that does not hash to the name answered {st}"),
                );
            }
        }
        if before != after {
            let mut diff = vec![];
            for (k, v) in &after {
                if before.get(k) != Some(v) {
                    diff.push(format!("+{k}"));
                }
            }
            for k in before.keys() {
                if !after.contains_key(k) {
                    diff.push(format!("-{k}"));
                }
            }
            rec.violate(
                "C17",
                &format!("C17/server/bad_upload_changed_file_tree/{label}"),
                format!("PUT {route} ({label}, status {status}) changed the server's files: {}", diff.into_iter().take(4).collect::<Vec<_>>().join(", ")),
            );
        }
        format!("refused:{status}")
    }
}

pub async fn execute(plan: Plan, dir: &Path) -> RunOutcome {
    let mut rec = Recorder::default();
    let cfg = plan.config.clone();
    // External files are encrypted with an age passphrase recipient, which
    // calibrates its scrypt work factor by timing a probe with the wall clock
    // and scaling to one second. The simulated clock advances by one tick per
    // reading: with the default 1 ms tick the calibration picks 2^20 (seconds
    // per blob), with a 2 s tick it keeps the probe's 2^10. Same code, the
    // simulated machine is just "slow".
    crate::interpose::clock_set_tick(2_000_000_000);
    let dev_db: Vec<bool> = cfg
        .get("device_db")
        .and_then(|v| v.as_array())
        .map(|a| a.iter().map(|x| x.as_bool().unwrap_or(false)).collect())
        .unwrap_or_default();
    macro_rules! harness_err {
        ($rec:expr, $plan:expr, $msg:expr) => {{
            let mut o = $rec.finish($plan);
            o.harness_error = Some($msg);
            return o;
        }};
    }
    let kind0 = if dev_db.first().copied().unwrap_or(false) { BackendKind::Db } else { BackendKind::Fs };
    let d0 = match Device::create("d0", &dir.join("d0"), kind0, "file world password 1", jbool(&cfg, "system_folders")).await {
        Ok(d) => d,
        Err(e) => harness_err!(rec, plan, format!("create account: {e}")),
    };
    let server = match SimServer::start(&dir.join("server"), jbool(&cfg, "server_db"), None).await {
        Ok(s) => s,
        Err(e) => harness_err!(rec, plan, format!("server: {e}")),
    };
    let net = SimNet::new(server.router.clone());
    let mk = |dev: Device| NetDevice {
        dev,
        online: Arc::new(AtomicBool::new(true)),
        bridge: None,
        skew_ns: 0,
        own: Default::default(),
        last_sync_ok: false,
        last_err: String::new(),
    };
    let mut world = NetWorld {
        server,
        net,
        devices: vec![mk(d0)],
        base: Default::default(),
        extra: vec![],
        other_account: None,
        excluded_device: None,
        access_mode: "none".into(),
        revoked_key: None,
        scanner: None,
        root: dir.to_path_buf(),
    };
    let c = world.sync(0, &mut rec).await;
    if c != "ok" {
        harness_err!(rec, plan, format!("initial sync: {c}"));
    }
    {
        let account_id = world.devices[0].dev.account_id;
        let password = world.devices[0].dev.password.clone();
        let src = world.devices[0].dev.dir.clone();
        let kind = world.devices[0].dev.kind;
        world.devices[0].dev.account = None;
        world.devices[0].bridge = None;
        tokio::task::yield_now().await;
        let dst = dir.join("d1");
        if let Err(e) = snapshot_dir(&src, &dst).await {
            harness_err!(rec, plan, format!("copy device: {e}"));
        }
        match Device::open_existing("d1", &dst, kind, account_id, password).await {
            Ok(mut d) => {
                d.model.fslots = world.devices[0].dev.model.fslots.clone();
                world.devices.push(mk(d));
            }
            Err(e) => harness_err!(rec, plan, format!("open copy: {e}")),
        }
        if let Err(e) = world.devices[0].dev.open().await {
            harness_err!(rec, plan, format!("reopen d0: {e}"));
        }
    }
    let mut fw = FileWorld { stale_reupload: false, rootless_force_merge: false, two_editors: jbool(&cfg, "two_editors"), w: world, queues: vec![Queue::default(), Queue::default()], clean: vec![true, true] };
    let steps = plan.steps.clone();
    for (idx, s) in steps.iter().enumerate() {
        rec.step = idx;
        let opn = jstr(s, "op");
        let di = jusize(s, "dev") % fw.w.devices.len();
        if std::env::var("SOSSIM_TRACE").is_ok() {
            eprintln!("step {idx}: {s}");
        }
        let class: String = match opn.as_str() {
            "sync" => {
                let c = fw.sync(di, &mut rec).await;
                fw.clean[di] = c == "ok";
                c
            }
            "settle" => {
                let c = fw.sync(di, &mut rec).await;
                fw.clean[di] = c == "ok";
                if c != "ok" {
                    format!("sync_{c}")
                } else {
                    let r = fw.settle(di, &mut rec).await;
                    if r == "ok" {
                        // this device and the server hold the same file log and
                        // every transfer completed
                        let sole = fw.role(di) == "editor";
                        check_device(&fw.w.devices[di].dev, fw.role(di), sole, true, &mut rec, "settle").await;
                        check_server(&fw.w, sole, fw.stale_reupload, &mut rec, &format!("settle of d{di}")).await;
                    }
                    r
                }
            }
            "badupload" => fw.bad_upload(di, s, &mut rec).await,
            "restart" => {
                fw.w.devices[di].bridge = None;
                fw.w.devices[di].dev.exec(s, &mut rec, 0).await
            }
            "quiesce" => {
                // every device syncs and settles in turn, twice
                let mut out = vec![];
                for round in 0..3 {
                    for i in 0..fw.w.devices.len() {
                        let c = fw.sync(i, &mut rec).await;
                        fw.clean[i] = c == "ok";
                        let r = if c == "ok" { fw.settle(i, &mut rec).await } else { format!("sync_{c}") };
                        if round == 2 {
                            out.push(r);
                        }
                    }
                }
                let all_ok = out.iter().all(|x| x == "ok");
                // event logs and folders must have converged (C04 is decided
                // elsewhere; its known non-convergence classes are not C17's)
                let conv = crate::netoracle::converged(&mut fw.w).await;
                if all_ok && conv.is_none() {
                    rec.stats.probe("c17.quiesced");
                    for i in 0..fw.w.devices.len() {
                        check_device(&fw.w.devices[i].dev, fw.role(i), true, true, &mut rec, "final settle").await;
                    }
                    check_server(&fw.w, true, fw.stale_reupload, &mut rec, "final settle").await;
                } else if conv.is_some() {
                    rec.stats.probe("c17.logs_not_converged");
                } else {
                    rec.stats.probe("c17.transfers_not_settled");
                }
                out.join("/")
            }
            _ => {
                // local edit on device di
                let before = file_log_len(&fw.w.devices[di].dev).await;
                let c = fw.w.devices[di].dev.exec(s, &mut rec, 0).await;
                let new_events = file_events_from(&fw.w.devices[di].dev, before).await;
                if !new_events.is_empty() {
                    rec.stats.count_n("c17.file_events", new_events.len() as u64);
                    fw.queues[di].0.extend(new_events);
                }
                if !c.starts_with("skip") {
                    fw.clean[di] = false;
                    // the editing device is checked right away: its own blobs
                    // follow its own log exactly (no transfer involved) unless it
                    // has merged remote file events whose blobs are still in flight
                    let strict = fw.queues.iter().enumerate().all(|(k, q)| k == di || q.0.is_empty()) && di == 0 && !jbool(&cfg, "two_editors");
                    let sole = fw.role(di) == "editor";
                    check_device(&fw.w.devices[di].dev, fw.role(di), sole, strict && sole, &mut rec, &opn).await;
                }
                c
            }
        };
        if matches!(opn.as_str(), "sync" | "badupload" | "restart") {
            check_device(&fw.w.devices[di].dev, fw.role(di), fw.role(di) == "editor", false, &mut rec, &opn).await;
            check_server(&fw.w, false, fw.stale_reupload, &mut rec, &opn).await;
        }
        let class_short = class.split(':').next().unwrap_or("").to_string();
        rec.step(idx, &opn, &class_short, &format!("d{di} {}", if class.len() > class_short.len() { class.clone() } else { String::new() }));
    }
    for (k, v) in fw.w.net.0.fault_counts.lock().unwrap().iter() {
        *rec.stats.faults.entry(k.clone()).or_default() += v;
    }
    rec.stats.count_n("deliveries", fw.w.net.0.seq.load(SeqCst));
    rec.stats.sim_time_s = (crate::interpose::clock_now() - crate::interpose::CLOCK_BASE_NS) as f64 / 1e9;
    drop(fw);
    rec.finish(plan)
}

#[allow(dead_code)]
fn _p(_: PathBuf) {}

#![allow(dead_code)]
//! sossim — deterministic simulation with fault injection for saveoursecrets/sdk.
//!
//! sossim check <PROP> [quick|thorough]     parent: run a batch, write evidence
//! sossim replay <file>                     re-execute a replay file
//! sossim determinism <PROP> <n>            self-test
//! sossim run-one <family> <PROP> <seed> <tier> <dir>   (child)
//! sossim run-plan <plan.json> <dir>                    (child)

mod acct;
mod alloc;
mod archw;
mod authw;
mod bytesw;
mod common;
mod crash;
mod device;
mod filew;
mod interpose;
mod logw;
mod net;
mod netoracle;
mod netw;
mod oracles;
mod plainscan;
mod tamper;
mod upgradew;
mod registry;
mod rng;
mod runner;

#[global_allocator]
static GLOBAL: alloc::Counting = alloc::Counting;

use common::*;
use std::path::{Path, PathBuf};

pub fn netw_class(e: &net::SimError) -> String {
    netw::class_of_pub(e)
}

fn env_seed() -> u64 {
    std::env::var("VERIF_SEED")
        .ok()
        .and_then(|s| s.parse::<u64>().ok())
        .unwrap_or(20260925)
}

fn child_runtime() -> tokio::runtime::Runtime {
    tokio::runtime::Builder::new_current_thread()
        .enable_all()
        .max_blocking_threads(2)
        .build()
        .expect("runtime")
}

fn execute(plan: Plan, dir: &Path) -> RunOutcome {
    if let Ok(f) = std::env::var("SOSSIM_LOG") {
        let _ = tracing_subscriber::fmt()
            .with_env_filter(tracing_subscriber::EnvFilter::new(f))
            .with_writer(std::io::stderr)
            .try_init();
    }
    interpose::seed_rng(plan.seed);
    interpose::clock_enable(interpose::CLOCK_BASE_NS, 1_000_003);
    let rt = child_runtime();
    let family = plan.family.clone();
    let dir = dir.to_path_buf();
    let res = rt.block_on(async move {
        match family.as_str() {
            "logw" => logw::execute(plan, &dir).await,
            "acct" => acct::execute(plan, &dir).await,
            "netw" => netw::execute(plan, &dir).await,
            "filew" => filew::execute(plan, &dir).await,
            "crash" => crash::execute(plan, &dir).await,
            "bytes" => bytesw::execute(plan, &dir).await,
            other => panic!("unknown family {other}"),
        }
    });
    res
}

fn generate(family: &str, property: &str, seed: u64, tier: Tier) -> Plan {
    match family {
        "logw" => logw::generate(property, seed, tier),
        "acct" => acct::generate(property, seed, tier),
        "netw" => netw::generate(property, seed, tier),
        "filew" => filew::generate(property, seed, tier),
        "crash" => crash::generate(property, seed, tier),
        "bytes" => bytesw::generate(property, seed, tier),
        other => panic!("unknown family {other}"),
    }
}

fn write_outcome(dir: &Path, o: &RunOutcome) {
    let tmp = dir.join("outcome.json.tmp");
    std::fs::write(&tmp, serde_json::to_vec(o).expect("serialise outcome"))
        .expect("write outcome");
    std::fs::rename(&tmp, dir.join("outcome.json")).expect("rename outcome");
}

fn main() {
    let args: Vec<String> = std::env::args().collect();
    let cmd = args.get(1).map(|s| s.as_str()).unwrap_or("");
    match cmd {
        "check" => {
            let prop = args.get(2).expect("property id");
            let tier = args
                .get(3)
                .map(|s| Tier::parse(s))
                .or_else(|| std::env::var("VERIF_TIER").ok().map(|s| Tier::parse(&s)))
                .unwrap_or(Tier::Quick);
            let r = runner::check(prop, tier, env_seed());
            std::process::exit(r.exit);
        }
        "replay" => {
            let f = PathBuf::from(args.get(2).expect("replay file"));
            std::process::exit(runner::replay(&f));
        }
        "determinism" => {
            let prop = args.get(2).expect("property id");
            let n = args.get(3).and_then(|s| s.parse().ok()).unwrap_or(16);
            std::process::exit(runner::determinism(prop, n, env_seed()));
        }
        "run-one" => {
            let family = args.get(2).expect("family");
            let prop = args.get(3).expect("prop");
            let seed: u64 = args.get(4).expect("seed").parse().expect("seed");
            let tier = Tier::parse(args.get(5).expect("tier"));
            let dir = PathBuf::from(args.get(6).expect("dir"));
            interpose::seed_rng(seed);
            let plan = generate(family, prop, seed, tier);
            let o = execute(plan, &dir);
            write_outcome(&dir, &o);
        }
        "run-plan" => {
            let file = PathBuf::from(args.get(2).expect("plan file"));
            let dir = PathBuf::from(args.get(3).expect("dir"));
            let plan: Plan =
                serde_json::from_slice(&std::fs::read(&file).expect("read plan"))
                    .expect("parse plan");
            let o = execute(plan, &dir);
            write_outcome(&dir, &o);
        }
        "crash-op" => {
            let f = PathBuf::from(args.get(2).expect("job file"));
            let job: crash::OpJob =
                serde_json::from_slice(&std::fs::read(&f).expect("read job")).expect("parse job");
            interpose::seed_rng(job.seed);
            let rt = child_runtime();
            rt.block_on(crash::run_op_job(job));
        }
        "minimise" => {
            // sossim minimise <replay.json> <budget_s>: shrink further, rewrite the file
            let f = PathBuf::from(args.get(2).expect("replay file"));
            let budget: u64 = args.get(3).and_then(|s| s.parse().ok()).unwrap_or(300);
            let doc: serde_json::Value =
                serde_json::from_slice(&std::fs::read(&f).expect("read")).expect("json");
            let plan: Plan = serde_json::from_value(doc["plan"].clone()).expect("plan");
            let prop = doc["property"].as_str().unwrap_or("").to_string();
            let sig = doc["signature"].as_str().unwrap_or("").to_string();
            let root = runner::scratch_root();
            let min = runner::minimise(
                &plan,
                &prop,
                &sig,
                &root,
                std::time::Duration::from_secs(180),
                std::time::Duration::from_secs(budget),
            );
            let _ = std::fs::remove_dir_all(&root);
            println!("steps {} -> {}", plan.steps.len(), min.steps.len());
            let mut doc = doc;
            doc["minimised_steps"] = serde_json::json!(min.steps.len());
            doc["plan"] = serde_json::to_value(&min).unwrap();
            std::fs::write(&f, serde_json::to_vec_pretty(&doc).unwrap()).expect("write");
        }
        "plan" => {
            // sossim plan <family> <prop> <seed> <tier>: print the generated plan
            let family = args.get(2).expect("family");
            let prop = args.get(3).expect("prop");
            let seed: u64 = args.get(4).expect("seed").parse().expect("seed");
            let tier = Tier::parse(args.get(5).map(|s| s.as_str()).unwrap_or("quick"));
            let plan = generate(family, prop, seed, tier);
            println!("{}", serde_json::to_string_pretty(&plan).unwrap());
        }
        "list" => {
            for id in registry::all_ids() {
                println!("{id}");
            }
        }
        _ => {
            eprintln!("usage: sossim check <PROP> [quick|thorough] | replay <file> | determinism <PROP> <n>");
            std::process::exit(2);
        }
    }
}

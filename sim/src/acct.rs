//! Family `acct`: one device, random histories over the whole account
//! alphabet (plus the folder-level API with caller-chosen / re-used ids),
//! lifecycle operations (sign-out/sign-in, restart = fresh `LocalAccount`
//! over the same storage) at every position; model-vs-system after every
//! step. Decides C01; the same world carries the C12 / C10 / C16 / C20
//! oracles (see `oracles.rs`).

use crate::common::*;
use crate::device::*;
use crate::oracles;
use crate::rng::Rng;
use serde_json::{json, Value};
use std::path::Path;

pub fn generate(property: &str, seed: u64, tier: Tier) -> Plan {
    let mut r = Rng::new(seed).fork("acct");
    let backend = seed % 2; // both backends in every batch
    let cipher = (seed / 2) % 2; // both ciphers in every batch
    let n_steps = match tier {
        Tier::Quick => r.range(12, 40),
        Tier::Thorough => r.range(20, 70),
    } as usize;
    let rekey = matches!(property, "C12" | "C10");
    let mut w: Vec<(&str, u64)> = vec![
        ("create", 12),
        ("update", 8),
        ("move", 5),
        ("delete", 4),
        ("archive", 2),
        ("unarchive", 2),
        ("raw_create", if property == "C01" { 3 } else { 0 }),
        ("fcreate", 4),
        ("frename", 2),
        ("fflags", 2),
        ("fdesc", 2),
        ("fdelete", 1),
        ("signout_in", 2),
        ("restart", 3),
        ("compact", if rekey { 4 } else { 0 }),
        ("compact_account", if rekey { 1 } else { 0 }),
        ("chpw_folder", if rekey { 3 } else { 0 }),
        ("chpw_account", if rekey { 1 } else { 0 }),
        ("chcipher", if rekey { 1 } else { 0 }),
    ];
    // swarm: drop / boost some kinds per run
    for (name, x) in w.iter_mut() {
        if *name == "create" {
            continue;
        }
        if r.chance(1, 6) {
            *x = 0;
        } else if r.chance(1, 5) {
            *x *= 3;
        }
    }
    let weights: Vec<u64> = w.iter().map(|x| x.1).collect();
    let n_slots = r.range(3, 6);
    let mut steps = vec![];
    if cipher == 1 {
        // exercise the second cipher on the system folders too
        steps.push(json!({"op":"chcipher","cipher":1,"kdf":r.below(2),"pin":true}));
    }
    // make sure user folders exist early in most runs
    if r.chance(3, 4) {
        steps.push(json!({"op":"fcreate","fslot":0,"name":r.below(2),"cipher":cipher,"kdf":r.below(2),"val":r.below(1<<20)}));
    }
    let mut val_ctr = seed.wrapping_mul(977) % 100_000;
    for _ in 0..n_steps {
        val_ctr += 1;
        let val = val_ctr;
        let k = w[r.weighted(&weights)].0;
        let slot = r.below(n_slots);
        let any_folder = |r: &mut Rng| -> u64 {
            // 0 default, 1 archive, 2 authenticator, 3 contacts, 4..7 user
            *r.pick(&[0u64, 0, 4, 4, 5, 2, 3, 6])
        };
        let s = match k {
            "create" => json!({"op":"create","slot":slot,"folder":any_folder(&mut r),"kind":r.below(15),"val":val,
                "label":r.below(3),"tags":r.below(8),"fav":r.chance(1,3),"big":r.chance(1,12)}),
            "update" => json!({"op":"update","slot":slot,"val":val,"label":r.below(3),"tags":r.below(8),
                "fav":r.chance(1,3),"meta_only":r.chance(1,4)}),
            "move" => json!({"op":"move","slot":slot,"to":any_folder(&mut r)}),
            "delete" => json!({"op":"delete","slot":slot}),
            "archive" => json!({"op":"archive","slot":slot}),
            "unarchive" => json!({"op":"unarchive","slot":slot}),
            "raw_create" => json!({"op":"raw_create","slot":slot,"folder":any_folder(&mut r),"kind":r.below(15),"val":val,
                "label":r.below(3),"tags":r.below(8),"fav":false,"reuse":r.below(n_slots),"reuse_id":r.chance(1,2),"reuse_deleted":r.chance(1,3)}),
            "fcreate" => json!({"op":"fcreate","fslot":r.below(3),"name":r.below(2),"cipher":if r.chance(3,4){cipher}else{1-cipher},"kdf":r.below(2),"val":val}),
            "frename" => json!({"op":"frename","fslot":any_folder(&mut r),"name":r.below(2),"val":val}),
            "fflags" => json!({"op":"fflags","fslot":any_folder(&mut r),"local":r.chance(1,2)}),
            "fdesc" => json!({"op":"fdesc","fslot":any_folder(&mut r),"val":val}),
            "fdelete" => json!({"op":"fdelete","fslot":r.below(3)}),
            "compact" => json!({"op":"compact","fslot":any_folder(&mut r)}),
            "chpw_folder" => json!({"op":"chpw_folder","fslot":any_folder(&mut r),"val":val}),
            "chpw_account" => json!({"op":"chpw_account","val":val}),
            "chcipher" => json!({"op":"chcipher","cipher":r.below(2),"kdf":r.below(2)}),
            other => json!({"op":other}),
        };
        steps.push(s);
    }
    // force-merge path (hard-conflict resolution): remember a folder log,
    // keep editing, then replace the log with the remembered copy. Drawn from
    // an independent stream and spliced in, so the rest of the plan for a seed
    // is what it was before these operations existed.
    if matches!(property, "C01" | "C02") {
        let mut fr = Rng::new(seed).fork("acct.force");
        if fr.chance(2, 3) && steps.len() > 6 {
            let pairs = fr.range(1, 3);
            for _ in 0..pairs {
                let fslot = *fr.pick(&[0u64, 0, 4, 4, 5]);
                let a = fr.below(steps.len() as u64 - 2) as usize;
                let b = a + 1 + fr.below((steps.len() - a) as u64 - 1) as usize;
                steps.insert(b.min(steps.len()), json!({"op":"frevert","fslot":fslot}));
                steps.insert(a, json!({"op":"fsnap","fslot":fslot}));
                if fr.chance(1, 2) {
                    let c = (b + 2).min(steps.len());
                    steps.insert(c, json!({"op":"restart"}));
                }
            }
        }
    }
    // C18 / C19: accounts with attachments (external file blobs) and several
    // folders with flags and descriptions; spliced in from an independent stream
    if matches!(property, "C16" | "C18" | "C19") {
        let mut xr = Rng::new(seed).fork("acct.attachments");
        let n = xr.range(0, 3);
        for k in 0..n {
            let at = xr.below(steps.len() as u64 + 1) as usize;
            steps.insert(at, json!({"op":"xcreate","slot":xr.below(n_slots),"folder":*xr.pick(&[0u64, 4, 4, 5]),"val":900_000 + seed % 1000 * 10 + k,
                "size":xr.below(5),"label":xr.below(3),"tags":xr.below(8),"fav":false,"attach":xr.below(3)}));
        }
        if xr.chance(1, 2) {
            let at = xr.below(steps.len() as u64 + 1) as usize;
            steps.insert(at, json!({"op":"xupdate","slot":xr.below(n_slots),"val":950_000 + seed % 1000,"size":xr.below(5),"label":0,"tags":0,"fav":false}));
        }
    }
    Plan {
        family: "acct".into(),
        property: property.into(),
        seed,
        config: json!({"backend": backend, "cipher": cipher, "system_folders": r.chance(4,5),
            "big": match tier { Tier::Quick => 300_000, Tier::Thorough => 2_500_000 }}),
        steps,
    }
}

pub async fn execute(plan: Plan, dir: &Path) -> RunOutcome {
    let mut rec = Recorder::default();
    let prop = plan.property.clone();
    let kind = if ju64(&plan.config, "backend") == 0 { BackendKind::Fs } else { BackendKind::Db };
    let big = jusize(&plan.config, "big");
    let sysf = jbool(&plan.config, "system_folders");
    let mut dev = match Device::create("d0", &dir.join("d0"), kind, "correct horse battery staple 1", sysf).await {
        Ok(d) => d,
        Err(e) => {
            let mut o = rec.finish(plan);
            o.harness_error = Some(format!("create account: {e}"));
            return o;
        }
    };
    let mut ora = oracles::AcctOracles::new(&prop);
    ora.seed = plan.seed;
    if plan.steps.iter().any(|s| jstr(s, "op") == "xcreate") {
        // see filew.rs: a slow simulated clock keeps age's scrypt calibration
        // at its probe work factor (external files are passphrase-encrypted)
        crate::interpose::clock_set_tick(2_000_000_000);
    }
    ora.begin(&mut dev, &mut rec).await;
    let steps = plan.steps.clone();
    for (idx, s) in steps.iter().enumerate() {
        rec.step = idx;
        let opn = jstr(s, "op");
        ora.before_step(&mut dev, s, &mut rec).await;
        let class = dev.exec(s, &mut rec, big).await;
        let class_short = class.split(':').next().unwrap_or("").to_string();
        dev.invalidate_fsnaps(&opn, s, &class);
        if opn == "frevert" && class == "ok" {
            rec.stats.probe("force_merge.applied");
        }
        if class == "ok" || class == "ok_existing" {
            rec.stats.count("ops_ok");
        }
        if class.starts_with("err") {
            // a failed operation must not change what is served (checked below
            // against the unchanged model)
            rec.stats.count("ops_err");
        }
        let when = match opn.as_str() {
            "restart" | "signout_in" => "reload",
            _ => "live",
        };
        if opn == "restart" && class.starts_with("err") {
            rec.violate(
                "C01",
                &format!("C01/{}/restart/sign_in_failed", dev.kind.name()),
                format!("a fresh account over the persisted storage does not open: {class}"),
            );
        }
        if dev.account.is_some() {
            dev.check_model(&mut rec, when, &opn, "C01").await;
            ora.after_step(&mut dev, s, &class, &mut rec).await;
            if prop == "C02" {
                // folder == replay(event log) == persisted vault mirror
                crate::netoracle::check_replay_as(&mut dev, &mut rec, &opn, false, "C02").await;
            }
        }
        rec.step(idx, &opn, &class_short, &format!("{} {}", dev.kind.name(), if class.starts_with("err") { class.clone() } else { String::new() }));
        rec.observe(&serde_json::to_string(&dev.model.folders).unwrap_or_default());
    }
    // final: everything again from persisted storage
    rec.step = steps.len();
    match dev.open().await {
        Ok(()) => {
            dev.check_model(&mut rec, "reload", "final restart", "C01").await;
            ora.finish(&mut dev, &mut rec).await;
        }
        Err(e) => rec.violate(
            "C01",
            &format!("C01/{}/final_restart/sign_in_failed", dev.kind.name()),
            format!("{e}"),
        ),
    }
    rec.stats.sim_time_s =
        (crate::interpose::clock_now() - crate::interpose::CLOCK_BASE_NS) as f64 / 1e9;
    drop(dev);
    rec.finish(plan)
}

#[allow(dead_code)]
fn _v(_: Value) {}

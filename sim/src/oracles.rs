//! Property-specific oracles that ride on the single-device world.

use crate::common::*;
use crate::device::*;
use serde_json::Value;

pub struct AcctOracles {
    pub prop: String,
}

impl AcctOracles {
    pub fn new(prop: &str) -> Self {
        AcctOracles { prop: prop.to_string() }
    }
    pub async fn begin(&mut self, _dev: &mut Device, _rec: &mut Recorder) {}
    pub async fn before_step(&mut self, _dev: &mut Device, _s: &Value, _rec: &mut Recorder) {}
    pub async fn after_step(&mut self, _dev: &mut Device, _s: &Value, _class: &str, _rec: &mut Recorder) {}
    pub async fn finish(&mut self, _dev: &mut Device, _rec: &mut Recorder) {}
}

//! Property-specific oracles that ride on the single-device world:
//! C12 (compaction / key changes), C10 (nonce multiset, key binding),
//! C16 (integrity report soundness) — see also `tamper.rs`.

use crate::common::*;
use crate::device::*;
use futures::{pin_mut, StreamExt};
use serde_json::Value;
use sos_account::Account;
use sos_backend::BackendTarget;
use sos_core::{
    crypto::{AccessKey, AeadPack, KeyDerivation, PrivateKey},
    decode,
    events::{EventLog, WriteEvent},
    VaultId,
};
use sos_login::DelegatedAccess;
use sos_sync::StorageEventLogs;
use sos_vault::Vault;
use std::collections::BTreeMap;

/// The persisted vault (file or rows) of a folder.
pub async fn mirror_vault(dev: &Device, fid: &VaultId) -> Result<Vault, String> {
    let a = dev.lock().await;
    let target = a.backend_target().await;
    match &target {
        BackendTarget::FileSystem(paths) => {
            let p = paths.with_account_id(a.account_id()).vault_path(fid);
            let b = std::fs::read(&p).map_err(|e| format!("read {}: {e}", p.display()))?;
            decode::<Vault>(&b).await.map_err(|e| format!("decode vault: {e}"))
        }
        BackendTarget::Database(_, client) => {
            sos_database::entity::FolderEntity::compute_folder_vault(client, fid)
                .await
                .map_err(|e| format!("compute_folder_vault: {e}"))
        }
    }
}

pub async fn folder_events(dev: &Device, fid: &VaultId) -> Result<Vec<WriteEvent>, String> {
    let a = dev.lock().await;
    let log = a.folder_log(fid).await.map_err(|e| e.to_string())?;
    let log = log.read().await;
    let mut out = vec![];
    let stream = log.event_stream(false).await;
    pin_mut!(stream);
    while let Some(r) = stream.next().await {
        let (_, ev) = r.map_err(|e| e.to_string())?;
        out.push(ev);
    }
    Ok(out)
}

pub async fn folder_key(dev: &Device, fid: &VaultId) -> Option<AccessKey> {
    let a = dev.lock().await;
    a.find_folder_password(fid).await.ok().flatten()
}

/// Derive the symmetric key `key` yields for `vault` (its salt / seed / kdf).
pub fn derive(vault: &Vault, key: &AccessKey) -> Option<PrivateKey> {
    match key {
        AccessKey::Password(pw) => {
            let salt = KeyDerivation::parse_salt(vault.salt()?).ok()?;
            let d = vault.deriver().derive(pw, &salt, vault.seed()).ok()?;
            Some(PrivateKey::Symmetric(d))
        }
        AccessKey::Identity(id) => Some(PrivateKey::Asymmetric(id.clone())),
    }
}

/// Every AEAD blob of a folder's storage: header meta, rows, event payloads.
pub async fn folder_packs(vault: &Vault, events: &[WriteEvent]) -> Vec<(String, AeadPack)> {
    let mut out = vec![];
    if let Some(m) = vault.header().meta() {
        out.push(("vault.header.meta".to_string(), m.clone()));
    }
    for (id, c) in vault.iter() {
        out.push((format!("vault.row.meta:{id}"), c.1 .0.clone()));
        out.push((format!("vault.row.secret:{id}"), c.1 .1.clone()));
    }
    for (i, e) in events.iter().enumerate() {
        match e {
            WriteEvent::CreateVault(buf) => {
                if let Ok(v) = decode::<Vault>(buf).await {
                    if let Some(m) = v.header().meta() {
                        out.push((format!("event[{i}].create_vault.meta"), m.clone()));
                    }
                    for (id, c) in v.iter() {
                        out.push((format!("event[{i}].create_vault.row.meta:{id}"), c.1 .0.clone()));
                        out.push((format!("event[{i}].create_vault.row.secret:{id}"), c.1 .1.clone()));
                    }
                }
            }
            WriteEvent::SetVaultMeta(a) => out.push((format!("event[{i}].set_meta"), a.clone())),
            WriteEvent::CreateSecret(id, c) | WriteEvent::UpdateSecret(id, c) => {
                out.push((format!("event[{i}].meta:{id}"), c.1 .0.clone()));
                out.push((format!("event[{i}].secret:{id}"), c.1 .1.clone()));
            }
            _ => {}
        }
    }
    out
}

fn nonce_bytes(p: &AeadPack) -> Vec<u8> {
    match &p.nonce {
        sos_core::crypto::Nonce::Nonce12(n) => n.to_vec(),
        sos_core::crypto::Nonce::Nonce24(n) => n.to_vec(),
    }
}

struct Before {
    op: String,
    fid: Option<VaultId>,
    old_key: Option<AccessKey>,
    old_vault: Option<Vault>,
    old_account_password: secrecy::SecretString,
    /// per folder: (key, vault) before an account-wide operation
    all_old: BTreeMap<VaultId, (AccessKey, Vault)>,
}

pub struct AcctOracles {
    pub prop: String,
    before: Option<Before>,
    /// nonce -> ciphertext digest, over everything ever seen (C10)
    nonces: BTreeMap<Vec<u8>, String>,
    /// run seed (for the oracles that draw their own fault positions)
    pub seed: u64,
}

const REKEY_OPS: [&str; 5] = ["compact", "compact_account", "chpw_folder", "chpw_account", "chcipher"];

impl AcctOracles {
    pub fn new(prop: &str) -> Self {
        AcctOracles { prop: prop.to_string(), before: None, nonces: BTreeMap::new(), seed: 0 }
    }

    fn on(&self) -> bool {
        matches!(self.prop.as_str(), "C12" | "C10")
    }

    pub async fn begin(&mut self, _dev: &mut Device, _rec: &mut Recorder) {}

    pub async fn before_step(&mut self, dev: &mut Device, s: &Value, _rec: &mut Recorder) {
        self.before = None;
        if !self.on() || dev.account.is_none() {
            return;
        }
        let opn = jstr(s, "op");
        if !REKEY_OPS.contains(&opn.as_str()) {
            return;
        }
        let fid = match opn.as_str() {
            "compact" | "chpw_folder" => dev.model.fslots.get(&ju64(s, "fslot")).copied(),
            _ => None,
        };
        let mut b = Before {
            op: opn.clone(),
            fid,
            old_key: None,
            old_vault: None,
            old_account_password: dev.password.clone(),
            all_old: BTreeMap::new(),
        };
        if let Some(f) = fid {
            b.old_key = folder_key(dev, &f).await;
            b.old_vault = mirror_vault(dev, &f).await.ok();
        }
        if matches!(opn.as_str(), "chcipher" | "compact_account" | "chpw_account") {
            let ids: Vec<VaultId> = dev.model.folders.keys().copied().collect();
            for f in ids {
                if let (Some(k), Ok(v)) = (folder_key(dev, &f).await, mirror_vault(dev, &f).await) {
                    b.all_old.insert(f, (k, v));
                }
            }
        }
        self.before = Some(b);
    }

    async fn check_compacted_log(&self, dev: &mut Device, fid: &VaultId, rec: &mut Recorder, op: &str) {
        let backend = dev.kind.name();
        let events = match folder_events(dev, fid).await {
            Ok(e) => e,
            Err(e) => {
                rec.violate("C12", &format!("C12/{backend}/{op}/log_unreadable"), format!("folder {fid}: {e}"));
                return;
            }
        };
        let live: std::collections::BTreeSet<_> = dev
            .model
            .folders
            .get(fid)
            .map(|f| f.secrets.keys().copied().collect())
            .unwrap_or_default();
        let mut ok = matches!(events.first(), Some(WriteEvent::CreateVault(_)));
        let mut ids = std::collections::BTreeSet::new();
        for e in events.iter().skip(1) {
            match e {
                WriteEvent::CreateSecret(id, _) => {
                    if !ids.insert(*id) {
                        ok = false;
                    }
                }
                _ => ok = false,
            }
        }
        if events.len() != 1 + live.len() || !ok || ids != live {
            rec.violate(
                "C12",
                &format!("C12/{backend}/{op}/log_not_one_create_plus_one_per_live_secret"),
                format!(
                    "folder {fid}: log has {} events [{}] for {} live secrets",
                    events.len(),
                    events.iter().map(|e| format!("{:?}", sos_core::events::LogEvent::event_kind(e))).collect::<Vec<_>>().join(","),
                    live.len()
                ),
            );
        }
    }

    async fn check_old_key_dead(
        &self,
        dev: &mut Device,
        fid: &VaultId,
        old_key: &AccessKey,
        old_vault: &Vault,
        rec: &mut Recorder,
        op: &str,
        password_changes: bool,
    ) {
        let backend = dev.kind.name();
        let newv = match mirror_vault(dev, fid).await {
            Ok(v) => v,
            Err(e) => {
                rec.violate("C12", &format!("C12/{backend}/{op}/vault_unreadable"), format!("folder {fid}: {e}"));
                return;
            }
        };
        // the old password must not unlock the folder any more ...
        if password_changes && newv.verify(old_key).await.is_ok() {
            rec.violate(
                "C12",
                &format!("C12/{backend}/{op}/old_password_still_unlocks"),
                format!("folder {fid}: the previous folder password still verifies against the persisted vault"),
            );
        }
        // ... the new one must
        match folder_key(dev, fid).await {
            Some(k) => {
                if let Err(e) = newv.verify(&k).await {
                    rec.violate(
                        "C12",
                        &format!("C12/{backend}/{op}/new_password_does_not_unlock"),
                        format!("folder {fid}: {e}"),
                    );
                }
            }
            None => rec.violate(
                "C12",
                &format!("C12/{backend}/{op}/new_password_missing"),
                format!("folder {fid}: no folder password in the identity folder"),
            ),
        }
        // no blob encrypted under the old derived key remains
        if let Some(old_pk) = derive(old_vault, old_key) {
            let events = folder_events(dev, fid).await.unwrap_or_default();
            let packs = folder_packs(&newv, &events).await;
            rec.stats.count_n("c12.blobs_tried_with_old_key", packs.len() as u64);
            for (what, p) in packs {
                if old_vault.decrypt(&old_pk, &p).await.is_ok() {
                    rec.violate(
                        "C12",
                        &format!("C12/{backend}/{op}/blob_still_encrypted_under_old_key"),
                        format!("folder {fid}: {what} still decrypts with the previous key"),
                    );
                    break;
                }
            }
        }
    }

    pub async fn after_step(&mut self, dev: &mut Device, s: &Value, class: &str, rec: &mut Recorder) {
        if !self.on() || dev.account.is_none() {
            return;
        }
        let opn = jstr(s, "op");
        let backend = dev.kind.name();
        if let Some(b) = self.before.take() {
            if class == "ok" {
                rec.stats.probe(&format!("c12.{}", b.op));
                // data unchanged
                dev.check_model(rec, &format!("after_{}", b.op), &b.op, "C12").await;
                match b.op.as_str() {
                    "compact" => {
                        if let Some(f) = b.fid {
                            self.check_compacted_log(dev, &f, rec, "compact").await;
                        }
                    }
                    "chpw_folder" => {
                        if let (Some(f), Some(k), Some(v)) = (b.fid, &b.old_key, &b.old_vault) {
                            self.check_compacted_log(dev, &f, rec, "change_folder_password").await;
                            self.check_old_key_dead(dev, &f, k, v, rec, "change_folder_password", true).await;
                        }
                    }
                    "compact_account" => {
                        let ids: Vec<VaultId> = dev.model.folders.keys().copied().collect();
                        for f in ids {
                            self.check_compacted_log(dev, &f, rec, "compact_account").await;
                        }
                    }
                    "chcipher" => {
                        let want = cipher_of(ju64(s, "cipher"));
                        let ids: Vec<VaultId> = dev.model.folders.keys().copied().collect();
                        for f in ids {
                            if let Ok(v) = mirror_vault(dev, &f).await {
                                if v.cipher() != &want {
                                    rec.violate(
                                        "C12",
                                        &format!("C12/{backend}/change_cipher/folder_keeps_old_cipher"),
                                        format!("folder {f} is still {:?} after change_cipher to {:?}", v.cipher(), want),
                                    );
                                }
                                let want_kdf = kdf_of(ju64(s, "kdf"));
                                if v.kdf() != &want_kdf {
                                    rec.violate(
                                        "C12",
                                        &format!("C12/{backend}/change_cipher/folder_keeps_old_kdf"),
                                        format!("folder {f} is still {:?} after change_cipher to {:?}", v.kdf(), want_kdf),
                                    );
                                }
                                if let Some((ok, ov)) = b.all_old.get(&f) {
                                    if ov.cipher() != &want || ov.kdf() != v.kdf() {
                                        self.check_old_key_dead(dev, &f, ok, ov, rec, "change_cipher", false).await;
                                    }
                                }
                            }
                        }
                    }
                    "chpw_account" => {
                        // the old account password must not sign in any more
                        let old: AccessKey = b.old_account_password.clone().into();
                        let ok_old = {
                            let a = dev.lock().await;
                            a.verify(&old).await
                        };
                        if ok_old {
                            rec.violate(
                                "C12",
                                &format!("C12/{backend}/change_account_password/old_password_still_verifies"),
                                "the previous account password still verifies".into(),
                            );
                        }
                        if let Ok(target) = make_target(&dev.dir, dev.kind).await {
                            if let Ok(mut fresh) = sos_account::LocalAccount::new_unauthenticated(dev.account_id, target).await {
                                if fresh.sign_in(&old).await.is_ok() {
                                    rec.violate(
                                        "C12",
                                        &format!("C12/{backend}/change_account_password/old_password_still_signs_in"),
                                        "a fresh instance signs in with the previous account password".into(),
                                    );
                                }
                            }
                        }
                    }
                    _ => {}
                }
                // folder == replay(log) == mirror after the rewrite
                crate::netoracle::check_replay_as(dev, rec, &b.op, false, "C12").await;
            } else if class.starts_with("err") {
                rec.stats.count(&format!("c12.{}.err", b.op));
            }
        }
        // C10 (a): nonce multiset over everything the folder keys ever encrypted
        if self.prop == "C10" && !matches!(opn.as_str(), "restart" | "signout_in") {
            self.collect_nonces(dev, rec).await;
        }
    }

    async fn collect_nonces(&mut self, dev: &mut Device, rec: &mut Recorder) {
        let backend = dev.kind.name();
        let ids: Vec<VaultId> = dev.model.folders.keys().copied().collect();
        for f in ids {
            let (Ok(v), Ok(ev)) = (mirror_vault(dev, &f).await, folder_events(dev, &f).await) else { continue };
            for (what, p) in folder_packs(&v, &ev).await {
                let n = nonce_bytes(&p);
                let d = short_hash(&hex::encode(&p.ciphertext));
                match self.nonces.get(&n) {
                    Some(prev) if prev != &d => {
                        rec.violate(
                            "C10",
                            &format!("C10/{backend}/nonce_reused_for_different_ciphertext"),
                            format!("folder {f}: {what}: nonce {} was already used for another ciphertext", hex::encode(&n)),
                        );
                    }
                    Some(_) => {}
                    None => {
                        self.nonces.insert(n, d);
                    }
                }
            }
        }
        rec.stats.counters.insert("c10.distinct_nonces".into(), self.nonces.len() as u64);
    }

    pub async fn finish(&mut self, dev: &mut Device, rec: &mut Recorder) {
        if self.prop == "C10" {
            self.collect_nonces(dev, rec).await;
            crate::tamper::key_binding(dev, rec).await;
            crate::tamper::tamper_blobs(dev, rec).await;
        }
        if self.prop == "C16" {
            crate::tamper::integrity_checks(dev, rec).await;
        }
        if self.prop == "C18" {
            crate::archw::archive_checks(dev, rec, self.seed).await;
        }
    }
}

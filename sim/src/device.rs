//! A simulated device: the real `LocalAccount` on a real data directory
//! (file-system or sqlite backend) plus the reference model M-folder that the
//! harness maintains from the plaintext it chose.

use crate::common::*;
use secrecy::SecretString;
use serde_json::{json, Value};
use sos_account::{Account, LocalAccount};
use sos_backend::BackendTarget;
use sos_client_storage::{AccessOptions, NewFolderOptions};
use sos_core::{
    crypto::{AccessKey, Cipher, KeyDerivation},
    AccountId, Paths, SecretId, VaultFlags, VaultId,
};
use sos_vault::secret::{
    FileContent, IdentityKind, Secret, SecretMeta, SecretRow, SecretSigner,
    SecretType, UserData,
};
use std::collections::{BTreeMap, HashSet};
use std::path::{Path, PathBuf};

#[derive(Clone, Copy, Debug, PartialEq, Eq)]
pub enum BackendKind {
    Fs,
    Db,
}

impl BackendKind {
    pub fn name(&self) -> &'static str {
        match self {
            BackendKind::Fs => "fs",
            BackendKind::Db => "db",
        }
    }
}

pub async fn make_target(dir: &Path, kind: BackendKind) -> anyhow::Result<BackendTarget> {
    std::fs::create_dir_all(dir)?;
    let paths = Paths::new_client(dir);
    Ok(match kind {
        BackendKind::Fs => {
            Paths::scaffold(paths.documents_dir()).await?;
            BackendTarget::FileSystem(paths)
        }
        BackendKind::Db => {
            let mut client = sos_database::open_file(paths.database_file()).await?;
            sos_database::migrations::migrate_client(&mut client).await?;
            BackendTarget::Database(paths, client)
        }
    })
}

// --------------------------------------------------------------------- model

#[derive(Clone, Debug, PartialEq, Eq, serde::Serialize, serde::Deserialize)]
pub struct SecretM {
    pub meta: Value,
    pub secret: Value,
    pub kind: String,
}

#[derive(Clone, Debug, PartialEq, Eq, serde::Serialize, serde::Deserialize)]
pub struct FolderM {
    pub name: String,
    pub flags: u64,
    pub description: String,
    pub secrets: BTreeMap<SecretId, SecretM>,
}

pub type Snap = BTreeMap<VaultId, FolderM>;

#[derive(Clone, Debug, Default, serde::Serialize, serde::Deserialize)]
pub struct Model {
    pub folders: Snap,
    /// secret slot -> (folder, id)
    pub slots: BTreeMap<u64, (VaultId, SecretId)>,
    /// folder slot -> id (0 default, 1 archive, 2 authenticator, 3 contacts, 4.. user)
    pub fslots: BTreeMap<u64, VaultId>,
    /// ids of deleted secrets (for re-use of a deleted id)
    pub graveyard: Vec<(VaultId, SecretId)>,
}

/// External file blobs created so far: blob name (hex SHA-256 of the
/// encrypted bytes, as recorded in the secret) -> SHA-256 of the plaintext the
/// harness handed in (C17 oracle: decrypt(blob) must give that plaintext).
pub static XPLAIN: std::sync::Mutex<BTreeMap<String, String>> = std::sync::Mutex::new(BTreeMap::new());

/// Deterministic content of an external file.
pub fn xcontent(val: u64, size: usize) -> Vec<u8> {
    let mut out = format!("external file {} ", marker(val, "file.external.content")).into_bytes();
    let mut x = val.wrapping_mul(0x9E37_79B9_7F4A_7C15) | 1;
    while out.len() < size {
        x ^= x << 13;
        x ^= x >> 7;
        x ^= x << 17;
        out.extend_from_slice(&x.to_le_bytes());
    }
    if size > 0 {
        out.truncate(size.max(1));
    }
    out
}

/// All plaintext markers handed to the system so far (for the C03 scanner).
pub static MARKERS: std::sync::Mutex<Vec<(String, String)>> = std::sync::Mutex::new(Vec::new());

pub fn marker(val: u64, pos: &str) -> String {
    let h = sha256_hex(format!("marker:{val}:{pos}").as_bytes());
    let m = format!("Zq{}Xv", &h[..18]);
    if let Ok(mut g) = MARKERS.lock() {
        if g.len() < 100_000 {
            g.push((m.clone(), pos.to_string()));
        }
    }
    m
}

/// Register secret material that the harness did not generate itself.
pub fn marker_custom(value: &str, pos: &str) {
    if let Ok(mut g) = MARKERS.lock() {
        if !g.iter().any(|(m, _)| m == value) {
            g.push((value.to_string(), pos.to_string()));
        }
    }
}

pub const KINDS: [&str; 15] = [
    "note", "account", "list", "page", "card", "bank", "link", "password",
    "identity", "file", "pem", "totp", "contact", "age", "signer",
];

fn user_data(val: u64) -> UserData {
    let mut ud: UserData = Default::default();
    match val % 4 {
        0 => {}
        1 => ud.set_comment(Some(marker(val, "ud.comment"))),
        2 => {
            ud.set_comment(Some(marker(val, "ud.comment")));
            ud.set_recovery_note(Some(marker(val, "ud.recovery")));
        }
        _ => {
            // custom field: an embedded secret row
            let s = Secret::Password {
                password: marker(val, "ud.field.password").into(),
                name: Some(marker(val, "ud.field.name").into()),
                user_data: Default::default(),
            };
            let m = SecretMeta::new(marker(val, "ud.field.label"), s.kind());
            let mut b = [0x22u8; 16];
            b[15] = (val & 0xff) as u8;
            b[6] = 0x40 | (b[6] & 0x0f);
            b[8] = 0x80 | (b[8] & 0x3f);
            ud.push(SecretRow::new(uuid::Uuid::from_bytes(b), m, s));
        }
    }
    ud
}

/// Deterministic secret for (kind, val): every text position carries a
/// unique high-entropy marker.
pub fn make_secret(kind: &str, val: u64, size: usize) -> Secret {
    let ud = user_data(val);
    match kind {
        "account" => Secret::Account {
            account: marker(val, "account.account"),
            password: marker(val, "account.password").into(),
            url: vec![url::Url::parse(&format!("https://{}.example.com/", marker(val, "account.url").to_lowercase())).unwrap()],
            user_data: ud,
        },
        "list" => {
            let mut items = std::collections::HashMap::new();
            for i in 0..(1 + val % 3) {
                items.insert(
                    marker(val, &format!("list.key{i}")),
                    SecretString::from(marker(val, &format!("list.val{i}"))),
                );
            }
            Secret::List { items, user_data: ud }
        }
        "page" => Secret::Page {
            title: marker(val, "page.title"),
            mime: "text/markdown".into(),
            document: marker(val, "page.document").into(),
            user_data: ud,
        },
        "card" => Secret::Card {
            number: marker(val, "card.number").into(),
            expiry: None,
            cvv: marker(val, "card.cvv").into(),
            name: if val % 2 == 0 { Some(marker(val, "card.name").into()) } else { None },
            atm_pin: if val % 3 == 0 { Some(marker(val, "card.pin").into()) } else { None },
            user_data: ud,
        },
        "bank" => Secret::Bank {
            number: marker(val, "bank.number").into(),
            routing: marker(val, "bank.routing").into(),
            iban: Some(marker(val, "bank.iban").into()),
            swift: None,
            bic: if val % 2 == 0 { Some(marker(val, "bank.bic").into()) } else { None },
            user_data: ud,
        },
        "link" => Secret::Link {
            url: format!("https://example.com/{}", marker(val, "link.url")).into(),
            label: Some(marker(val, "link.label").into()),
            title: if val % 2 == 0 { Some(marker(val, "link.title").into()) } else { None },
            user_data: ud,
        },
        "password" => Secret::Password {
            password: marker(val, "password.password").into(),
            name: Some(marker(val, "password.name").into()),
            user_data: ud,
        },
        "identity" => Secret::Identity {
            id_kind: IdentityKind::Passport,
            number: marker(val, "identity.number").into(),
            issue_place: Some(marker(val, "identity.place")),
            issue_date: None,
            expiry_date: None,
            user_data: ud,
        },
        "file" => {
            // embedded file; `size` bytes with the marker at the front
            let mut buf = marker(val, "file.content").into_bytes();
            let mut x = val.wrapping_mul(0x9E37_79B9_7F4A_7C15) | 1;
            while buf.len() < size {
                x ^= x << 13;
                x ^= x >> 7;
                x ^= x << 17;
                buf.push((x & 0xff) as u8);
            }
            buf.truncate(size.max(0));
            use sha2::{Digest, Sha256};
            let checksum: [u8; 32] = Sha256::digest(&buf).into();
            Secret::File {
                content: FileContent::Embedded {
                    name: format!("{}.bin", marker(val, "file.name")),
                    mime: "application/octet-stream".into(),
                    checksum,
                    buffer: secrecy::SecretBox::new(buf.into()),
                },
                user_data: ud,
            }
        }
        "pem" => {
            let p = pem::Pem::new("CERTIFICATE", marker(val, "pem.body").into_bytes());
            Secret::Pem { certificates: vec![p], user_data: ud }
        }
        "totp" => {
            let secret = format!("{}{}", marker(val, "totp.secret"), "0123456789abcdef").into_bytes();
            let totp = totp_rs::TOTP::new(
                totp_rs::Algorithm::SHA1,
                6,
                1,
                30,
                secret,
                Some("Issuer".to_string()),
                format!("{}@example.com", marker(val, "totp.account")),
            )
            .expect("totp");
            Secret::Totp { totp, user_data: ud }
        }
        "contact" => {
            let text = format!(
                "BEGIN:VCARD\nVERSION:4.0\nFN:{}\nEND:VCARD",
                marker(val, "contact.fn")
            );
            let vcard: vcard4::Vcard = text.as_str().try_into().expect("vcard");
            Secret::Contact { vcard: Box::new(vcard), user_data: ud }
        }
        "age" => {
            // must be a valid identity (it is validated on decode); the key
            // itself is registered as a marker
            use secrecy::ExposeSecret;
            let key = age::x25519::Identity::generate().to_string();
            if let Ok(mut g) = MARKERS.lock() {
                g.push((key.expose_secret().to_string(), "age.key".into()));
            }
            Secret::Age { version: Default::default(), key, user_data: ud }
        }
        "signer" => {
            let mut k = [0u8; 32];
            let h = sha256_hex(format!("signer:{val}").as_bytes());
            k.copy_from_slice(&hex::decode(&h).unwrap()[..32]);
            Secret::Signer {
                private_key: SecretSigner::SinglePartyEd25519(secrecy::SecretBox::new(k.to_vec().into())),
                user_data: ud,
            }
        }
        _ => {
            let text = if size > 0 {
                let m = marker(val, "note.text");
                let mut s = String::with_capacity(size + m.len());
                s.push_str(&m);
                while s.len() < size {
                    s.push(((s.len() * 7 + val as usize) % 26 + 97) as u8 as char);
                }
                s
            } else if val % 11 == 0 {
                String::new() // empty value
            } else {
                marker(val, "note.text")
            };
            Secret::Note { text: text.into(), user_data: ud }
        }
    }
}

pub const LABELS: [&str; 3] = ["alpha", "beta", "gamma"];
pub const TAGS: [&str; 3] = ["t-red", "t-green", "t-blue"];

pub fn make_meta(secret: &Secret, label: u64, tags: u64, fav: bool, marker_label: bool, val: u64) -> SecretMeta {
    let lab = if marker_label {
        marker(val, "meta.label")
    } else {
        LABELS[(label % 3) as usize].to_string()
    };
    let mut m = SecretMeta::new(lab, secret.kind());
    let mut t = HashSet::new();
    for (i, name) in TAGS.iter().enumerate() {
        if tags & (1 << i) != 0 {
            t.insert(if marker_label { marker(val, &format!("meta.tag{i}")) } else { name.to_string() });
        }
    }
    m.set_tags(t);
    m.set_favorite(fav);
    m
}

fn meta_json(m: &SecretMeta) -> Value {
    let mut v = serde_json::to_value(m).unwrap_or(json!(null));
    if let Some(o) = v.as_object_mut() {
        o.remove("dateCreated");
        o.remove("lastUpdated");
        // tags are a set: canonical order
        if let Some(Value::Array(a)) = o.get_mut("tags") {
            a.sort_by(|x, y| x.as_str().cmp(&y.as_str()));
        }
    }
    v
}

fn secret_json(s: &Secret) -> Value {
    let mut v = serde_json::to_value(s).unwrap_or(json!(null));
    // big embedded buffers: keep a digest only
    fn shrink(v: &mut Value) {
        match v {
            Value::Array(a) if a.len() > 64 && a.iter().all(|x| x.is_u64()) => {
                let bytes: Vec<u8> = a.iter().map(|x| x.as_u64().unwrap_or(0) as u8).collect();
                *v = json!({"sha256": sha256_hex(&bytes), "len": bytes.len()});
            }
            Value::String(s) if s.len() > 256 => {
                *v = json!({"sha256s": sha256_hex(s.as_bytes()), "len": s.len()});
            }
            Value::Array(a) => a.iter_mut().for_each(shrink),
            Value::Object(o) => o.values_mut().for_each(shrink),
            _ => {}
        }
    }
    shrink(&mut v);
    // user-data custom fields carry their own dates
    fn strip_dates(v: &mut Value) {
        match v {
            Value::Object(o) => {
                o.remove("dateCreated");
                o.remove("lastUpdated");
                o.values_mut().for_each(strip_dates);
            }
            Value::Array(a) => a.iter_mut().for_each(strip_dates),
            _ => {}
        }
    }
    strip_dates(&mut v);
    v
}

pub fn secret_m(meta: &SecretMeta, secret: &Secret) -> SecretM {
    SecretM {
        meta: meta_json(meta),
        secret: secret_json(secret),
        kind: format!("{:?}", secret.kind()),
    }
}

pub fn cipher_of(n: u64) -> Cipher {
    if n % 2 == 0 {
        Cipher::AesGcm256
    } else {
        Cipher::XChaCha20Poly1305
    }
}
pub fn kdf_of(n: u64) -> KeyDerivation {
    if n % 2 == 0 {
        KeyDerivation::Argon2Id
    } else {
        KeyDerivation::BalloonHash
    }
}

// -------------------------------------------------------------------- device

pub struct Device {
    pub name: String,
    pub dir: PathBuf,
    pub kind: BackendKind,
    pub account: Option<std::sync::Arc<tokio::sync::Mutex<LocalAccount>>>,
    pub account_id: AccountId,
    pub password: SecretString,
    pub model: Model,
    /// markers in labels etc. (C03 runs)
    pub marker_labels: bool,
    /// folder slot -> (folder id, records of its event log, model of the folder)
    /// remembered by `fsnap`, restored through the force-merge path by `frevert`
    pub fsnaps: BTreeMap<u64, (VaultId, Vec<sos_core::events::EventRecord>, FolderM)>,
}

pub fn diff_snap(expect: &Snap, got: &Snap) -> Option<String> {
    if expect == got {
        return None;
    }
    let mut out = vec![];
    for (id, f) in expect {
        match got.get(id) {
            None => out.push(format!("folder {id} ({}) missing", f.name)),
            Some(g) => {
                if g.name != f.name {
                    out.push(format!("folder {id}: name expected {:?} got {:?}", f.name, g.name));
                }
                if g.flags != f.flags {
                    out.push(format!("folder {id}: flags expected {:#x} got {:#x}", f.flags, g.flags));
                }
                if g.description != f.description {
                    out.push(format!("folder {id}: description expected {:?} got {:?}", f.description, g.description));
                }
                for (sid, s) in &f.secrets {
                    match g.secrets.get(sid) {
                        None => out.push(format!("folder {id} ({}): secret {sid} missing", f.name)),
                        Some(gs) => {
                            if gs.meta != s.meta {
                                out.push(format!("secret {sid}: meta expected {} got {}", s.meta, gs.meta));
                            }
                            if gs.secret != s.secret {
                                let a = s.secret.to_string();
                                let b = gs.secret.to_string();
                                out.push(format!("secret {sid}: value expected {} got {}", &a[..a.len().min(200)], &b[..b.len().min(200)]));
                            }
                        }
                    }
                }
                for sid in g.secrets.keys() {
                    if !f.secrets.contains_key(sid) {
                        out.push(format!("folder {id} ({}): unexpected secret {sid}", f.name));
                    }
                }
            }
        }
    }
    for (id, g) in got {
        if !expect.contains_key(id) {
            out.push(format!("unexpected folder {id} ({})", g.name));
        }
    }
    Some(out.join("; "))
}

impl Device {
    /// Create a brand-new account on this device and sign in.
    pub async fn create(
        name: &str,
        dir: &Path,
        kind: BackendKind,
        password: &str,
        with_system_folders: bool,
    ) -> anyhow::Result<Device> {
        let target = make_target(dir, kind).await?;
        let password: SecretString = password.to_string().into();
        let mut account = LocalAccount::new_account_with_builder(
            format!("acct-{name}"),
            password.clone(),
            target,
            |b| {
                b.create_file_password(true)
                    .create_archive(with_system_folders)
                    .create_authenticator(with_system_folders)
                    .create_contacts(with_system_folders)
            },
        )
        .await?;
        let key: AccessKey = password.clone().into();
        account.sign_in(&key).await?;
        let _ = account.initialize_search_index().await;
        let account_id = *account.account_id();
        let mut d = Device {
            name: name.to_string(),
            dir: dir.to_path_buf(),
            kind,
            account: Some(std::sync::Arc::new(tokio::sync::Mutex::new(account))),
            account_id,
            password,
            model: Model::default(),
            marker_labels: false,
            fsnaps: BTreeMap::new(),
        };
        d.adopt_model().await?;
        Ok(d)
    }

    /// Open an existing account directory (e.g. a copied device).
    pub async fn open_existing(
        name: &str,
        dir: &Path,
        kind: BackendKind,
        account_id: AccountId,
        password: SecretString,
    ) -> anyhow::Result<Device> {
        let mut d = Device {
            name: name.to_string(),
            dir: dir.to_path_buf(),
            kind,
            account: None,
            account_id,
            password,
            model: Model::default(),
            marker_labels: false,
            fsnaps: BTreeMap::new(),
        };
        d.open().await?;
        d.adopt_model().await?;
        Ok(d)
    }

    /// (Re)open from persisted storage with a fresh `LocalAccount`.
    pub async fn open(&mut self) -> anyhow::Result<()> {
        self.account = None;
        let target = make_target(&self.dir, self.kind).await?;
        let mut account = LocalAccount::new_unauthenticated(self.account_id, target).await?;
        let key: AccessKey = self.password.clone().into();
        account.sign_in(&key).await?;
        // applications build the search index right after signing in
        let _ = account.initialize_search_index().await;
        self.account = Some(std::sync::Arc::new(tokio::sync::Mutex::new(account)));
        Ok(())
    }

    /// Lock the account (the sync bridge shares it through the same mutex).
    pub async fn lock(&self) -> tokio::sync::OwnedMutexGuard<LocalAccount> {
        self.account.as_ref().expect("device is open").clone().lock_owned().await
    }

    pub fn shared(&self) -> std::sync::Arc<tokio::sync::Mutex<LocalAccount>> {
        self.account.as_ref().expect("device is open").clone()
    }

    /// Initialise the model from what the account serves (after creation).
    pub async fn adopt_model(&mut self) -> anyhow::Result<()> {
        let snap = self.snapshot().await.map_err(|e| anyhow::anyhow!(e))?;
        self.model.folders = snap;
        self.model.fslots.clear();
        let (d, ar, au, co) = {
            let a = self.lock().await;
            (
                a.default_folder().await.map(|s| *s.id()),
                a.archive_folder().await.map(|s| *s.id()),
                a.authenticator_folder().await.map(|s| *s.id()),
                a.contacts_folder().await.map(|s| *s.id()),
            )
        };
        for (k, v) in [(0u64, d), (1, ar), (2, au), (3, co)] {
            if let Some(id) = v {
                self.model.fslots.insert(k, id);
            }
        }
        Ok(())
    }

    /// O-snapshot: everything the account serves, through the public API.
    pub async fn snapshot(&mut self) -> Result<Snap, String> {
        let mut a = self.lock().await;
        let folders = a.list_folders().await.map_err(|e| format!("list_folders: {e}"))?;
        let mut snap = Snap::new();
        for f in folders {
            let desc = a
                .folder_description(f.id())
                .await
                .map_err(|e| format!("folder_description({}): {e}", f.id()))?;
            let ids = a
                .list_secret_ids(f.id())
                .await
                .map_err(|e| format!("list_secret_ids({}): {e}", f.id()))?;
            let mut secrets = BTreeMap::new();
            for id in ids {
                let (row, _) = a
                    .read_secret(&id, Some(f.id()))
                    .await
                    .map_err(|e| format!("read_secret({id}) in {}: {e}", f.id()))?;
                if secrets.insert(id, secret_m(row.meta(), row.secret())).is_some() {
                    return Err(format!("list_secret_ids({}) lists {id} twice", f.id()));
                }
            }
            snap.insert(
                *f.id(),
                FolderM {
                    name: f.name().to_string(),
                    flags: f.flags().bits(),
                    description: desc,
                    secrets,
                },
            );
        }
        Ok(snap)
    }

    /// Compare what the account serves with the model (C01 oracle).
    /// `when` is "live" (same in-memory account) or "reload" (after
    /// sign-out/sign-in or a restart from persisted storage).
    pub async fn check_model(&mut self, rec: &mut Recorder, when: &str, after_op: &str, prop: &str) {
        let backend = self.kind.name();
        match self.snapshot().await {
            Ok(s) => {
                if let Some(d) = diff_snap(&self.model.folders, &s) {
                    rec.violate(
                        prop,
                        &format!("{prop}/{backend}/{when}/served_state_differs_from_model"),
                        format!("device {} after {after_op}: {d}", self.name),
                    );
                    // continue from what is served
                    self.model.folders = s;
                    let folders = self.model.folders.clone();
                    self.model.slots.retain(|_, (f, id)| {
                        folders.get(f).map(|x| x.secrets.contains_key(id)).unwrap_or(false)
                    });
                }
            }
            Err(e) => {
                rec.violate(
                    prop,
                    &format!("{prop}/{backend}/{when}/snapshot_failed"),
                    format!("device {} after {after_op}: {e}", self.name),
                );
            }
        }
    }

    /// A remembered folder log (fsnap) stands for "the copy another replica
    /// holds". It stays a valid force-merge source only while nothing that
    /// lives outside the folder log changed: keys (password / cipher), the
    /// clear-text attributes kept twice (name, flags, description) and the
    /// account-wide placement of secret ids (moves).
    pub fn invalidate_fsnaps(&mut self, opn: &str, s: &Value, class: &str) {
        if class.starts_with("skip") {
            return;
        }
        match opn {
            "move" | "archive" | "unarchive" | "chcipher" | "chpw_account" | "raw_create" | "fdelete" | "compact_account" => self.fsnaps.clear(),
            "frename" | "fflags" | "fdesc" | "chpw_folder" => {
                self.fsnaps.remove(&ju64(s, "fslot"));
            }
            _ => {}
        }
    }

    fn folder_of_slot(&self, fslot: u64) -> Option<VaultId> {
        self.model.fslots.get(&fslot).copied()
    }

    /// Execute one local operation; returns the outcome class.
    pub async fn exec(&mut self, s: &Value, rec: &mut Recorder, big: usize) -> String {
        let opn = jstr(s, "op");
        let slot = ju64(s, "slot");
        let val = ju64(s, "val");
        let marker_labels = self.marker_labels;
        if self.account.is_none() && opn != "restart" {
            // a failed restart (reported by its own oracle) leaves no account
            return "skip:closed".into();
        }
        match opn.as_str() {
            "create" => {
                let fslot = ju64(s, "folder");
                let Some(fid) = self.folder_of_slot(fslot) else { return "skip".into() };
                let kind = KINDS[(ju64(s, "kind") % KINDS.len() as u64) as usize];
                let size = if jbool(s, "big") { big } else { 0 };
                let secret = make_secret(kind, val, size);
                let meta = make_meta(&secret, ju64(s, "label"), ju64(s, "tags"), jbool(s, "fav"), marker_labels, val);
                let sm = secret_m(&meta, &secret);
                let opts = AccessOptions { folder: Some(fid), ..Default::default() };
                match self.lock().await.create_secret(meta, secret, opts).await {
                    Ok(r) => {
                        if let Some(f) = self.model.folders.get_mut(&fid) {
                            f.secrets.insert(r.id, sm);
                        }
                        self.model.slots.insert(slot, (fid, r.id));
                        rec.stats.count(&format!("kind.{kind}"));
                        "ok".into()
                    }
                    Err(e) => format!("err:{}", short_err(&e.to_string())),
                }
            }
            "update" => {
                let Some((fid, id)) = self.model.slots.get(&slot).copied() else { return "skip".into() };
                let old_kind = self
                    .model
                    .folders
                    .get(&fid)
                    .and_then(|f| f.secrets.get(&id))
                    .map(|s| s.kind.clone())
                    .unwrap_or_default();
                let kind = KINDS
                    .iter()
                    .find(|k| format!("{:?}", make_secret(k, 0, 0).kind()) == old_kind)
                    .copied()
                    .unwrap_or("note");
                let secret = make_secret(kind, val, 0);
                let meta = make_meta(&secret, ju64(s, "label"), ju64(s, "tags"), jbool(s, "fav"), marker_labels, val);
                let meta_only = jbool(s, "meta_only");
                let opts = AccessOptions { folder: Some(fid), ..Default::default() };
                let res = self.lock().await
                    .update_secret(&id, meta.clone(), if meta_only { None } else { Some(secret.clone()) }, opts)
                    .await;
                match res {
                    Ok(_) => {
                        if let Some(f) = self.model.folders.get_mut(&fid) {
                            if let Some(e) = f.secrets.get_mut(&id) {
                                e.meta = meta_json(&meta);
                                if !meta_only {
                                    e.secret = secret_json(&secret);
                                }
                            }
                        }
                        "ok".into()
                    }
                    Err(e) => format!("err:{}", short_err(&e.to_string())),
                }
            }
            "move" => {
                let Some((fid, id)) = self.model.slots.get(&slot).copied() else { return "skip".into() };
                let Some(to) = self.folder_of_slot(ju64(s, "to")) else { return "skip".into() };
                if to == fid {
                    return "skip".into();
                }
                match self.lock().await.move_secret(&id, &fid, &to, Default::default()).await {
                    Ok(r) => {
                        let e = self.model.folders.get_mut(&fid).and_then(|f| f.secrets.remove(&id));
                        if let (Some(e), Some(f)) = (e, self.model.folders.get_mut(&to)) {
                            f.secrets.insert(r.id, e);
                        }
                        self.model.slots.insert(slot, (to, r.id));
                        "ok".into()
                    }
                    Err(e) => format!("err:{}", short_err(&e.to_string())),
                }
            }
            "delete" => {
                let Some((fid, id)) = self.model.slots.get(&slot).copied() else { return "skip".into() };
                let opts = AccessOptions { folder: Some(fid), ..Default::default() };
                match self.lock().await.delete_secret(&id, opts).await {
                    Ok(_) => {
                        if let Some(f) = self.model.folders.get_mut(&fid) {
                            f.secrets.remove(&id);
                        }
                        self.model.slots.remove(&slot);
                        if self.model.graveyard.len() < 16 {
                            self.model.graveyard.push((fid, id));
                        }
                        "ok".into()
                    }
                    Err(e) => format!("err:{}", short_err(&e.to_string())),
                }
            }
            "archive" => {
                let Some((fid, id)) = self.model.slots.get(&slot).copied() else { return "skip".into() };
                let Some(arch) = self.folder_of_slot(1) else { return "skip".into() };
                if fid == arch {
                    return "skip".into();
                }
                match self.lock().await.archive(&fid, &id, Default::default()).await {
                    Ok(r) => {
                        let e = self.model.folders.get_mut(&fid).and_then(|f| f.secrets.remove(&id));
                        if let (Some(e), Some(f)) = (e, self.model.folders.get_mut(&arch)) {
                            f.secrets.insert(r.id, e);
                        }
                        self.model.slots.insert(slot, (arch, r.id));
                        "ok".into()
                    }
                    Err(e) => format!("err:{}", short_err(&e.to_string())),
                }
            }
            "unarchive" => {
                let Some((fid, id)) = self.model.slots.get(&slot).copied() else { return "skip".into() };
                let Some(arch) = self.folder_of_slot(1) else { return "skip".into() };
                if fid != arch {
                    return "skip".into();
                }
                let kind_s = self
                    .model
                    .folders
                    .get(&fid)
                    .and_then(|f| f.secrets.get(&id))
                    .map(|s| s.kind.clone())
                    .unwrap_or_default();
                let st = match kind_s.as_str() {
                    "Totp" => SecretType::Totp,
                    "Contact" => SecretType::Contact,
                    _ => SecretType::Note,
                };
                match self.lock().await.unarchive(&id, &st, Default::default()).await {
                    Ok((r, to)) => {
                        let to = *to.id();
                        let e = self.model.folders.get_mut(&fid).and_then(|f| f.secrets.remove(&id));
                        if let (Some(e), Some(f)) = (e, self.model.folders.get_mut(&to)) {
                            f.secrets.insert(r.id, e);
                        }
                        self.model.slots.insert(slot, (to, r.id));
                        "ok".into()
                    }
                    Err(e) => format!("err:{}", short_err(&e.to_string())),
                }
            }
            "raw_create" => {
                // folder-level API with a caller-chosen (possibly re-used) id
                let fslot = ju64(s, "folder");
                let Some(mut fid) = self.folder_of_slot(fslot) else { return "skip".into() };
                let reuse = self.model.slots.get(&ju64(s, "reuse")).copied();
                // Re-use is exercised *within* the folder that holds (or held)
                // the id: secret ids are account-wide unique by design (the
                // sqlite schema enforces it), so the same id in two folders is
                // outside the property.
                let id = match (jbool(s, "reuse_id"), reuse, jbool(s, "reuse_deleted")) {
                    (true, _, true) if !self.model.graveyard.is_empty() => {
                        let k = (val as usize) % self.model.graveyard.len();
                        let (gf, gid) = self.model.graveyard[k];
                        if !self.model.folders.contains_key(&gf)
                            || self.model.folders.values().any(|f| f.secrets.contains_key(&gid))
                        {
                            return "skip".into();
                        }
                        fid = gf;
                        rec.stats.probe("raw_create_reuses_deleted_id");
                        gid
                    }
                    (true, Some((rf, id)), _) => {
                        fid = rf;
                        id
                    }
                    _ => {
                        let mut b = [0x33u8; 16];
                        b[14] = (val >> 8) as u8;
                        b[15] = (val & 0xff) as u8;
                        b[6] = 0x40 | (b[6] & 0x0f);
                        b[8] = 0x80 | (b[8] & 0x3f);
                        let id = uuid::Uuid::from_bytes(b);
                        if self.model.folders.iter().any(|(k, f)| *k != fid && f.secrets.contains_key(&id)) {
                            return "skip".into();
                        }
                        id
                    }
                };
                let kind = KINDS[(ju64(s, "kind") % KINDS.len() as u64) as usize];
                let secret = make_secret(kind, val, 0);
                let meta = make_meta(&secret, ju64(s, "label"), ju64(s, "tags"), jbool(s, "fav"), marker_labels, val);
                let sm = secret_m(&meta, &secret);
                let row = SecretRow::new(id, meta, secret);
                let existed_in = self
                    .model
                    .folders
                    .iter()
                    .find(|(_, f)| f.secrets.contains_key(&id))
                    .map(|(k, _)| *k);
                let folder = self.lock().await.folder(&fid).await;
                let mut folder = match folder {
                    Ok(f) => f,
                    Err(e) => return format!("err:{}", short_err(&e.to_string())),
                };
                match folder.create_secret(&row).await {
                    Ok(_) => {
                        if existed_in == Some(fid) {
                            rec.stats.probe("raw_create_existing_id_same_folder");
                        } else if existed_in.is_some() {
                            rec.stats.probe("raw_create_existing_id_other_folder");
                        }
                        if existed_in.is_some() && existed_in != Some(fid) {
                            // the same id may exist in two different folders at the
                            // folder-level API; the account-level "exactly one folder"
                            // clause is about moves, so track it per folder
                        }
                        if let Some(f) = self.model.folders.get_mut(&fid) {
                            f.secrets.insert(id, sm);
                        }
                        self.model.slots.insert(slot, (fid, id));
                        if existed_in == Some(fid) { "ok_existing".into() } else { "ok".into() }
                    }
                    Err(e) => format!("err:{}", short_err(&e.to_string())),
                }
            }
            "fcreate" => {
                let fslot = 4 + ju64(s, "fslot") % 4;
                if self.model.fslots.contains_key(&fslot) {
                    return "skip".into();
                }
                let name = fname(ju64(s, "name"), marker_labels, val);
                let mut o = NewFolderOptions::new(name.clone());
                o.cipher = Some(cipher_of(ju64(s, "cipher")));
                o.kdf = Some(kdf_of(ju64(s, "kdf")));
                if jbool(s, "nosync") {
                    o.flags = Some(VaultFlags::NO_SYNC);
                }
                match self.lock().await.create_folder(o).await {
                    Ok(r) => {
                        let id = *r.folder.id();
                        self.model.fslots.insert(fslot, id);
                        self.model.folders.insert(
                            id,
                            FolderM {
                                name,
                                flags: r.folder.flags().bits(),
                                description: String::new(),
                                secrets: BTreeMap::new(),
                            },
                        );
                        "ok".into()
                    }
                    Err(e) => format!("err:{}", short_err(&e.to_string())),
                }
            }
            "frename" => {
                let Some(fid) = self.folder_of_slot(ju64(s, "fslot")) else { return "skip".into() };
                let name = fname(ju64(s, "name"), marker_labels, val);
                match self.lock().await.rename_folder(&fid, name.clone()).await {
                    Ok(_) => {
                        if let Some(f) = self.model.folders.get_mut(&fid) {
                            f.name = name;
                        }
                        "ok".into()
                    }
                    Err(e) => format!("err:{}", short_err(&e.to_string())),
                }
            }
            "fflags" => {
                let Some(fid) = self.folder_of_slot(ju64(s, "fslot")) else { return "skip".into() };
                let cur = self.model.folders.get(&fid).map(|f| f.flags).unwrap_or(0);
                // toggle a harmless user-visible bit, keep the role bits
                let bit = if jbool(s, "local") { VaultFlags::LOCAL.bits() } else { VaultFlags::SHARED.bits() };
                let newf = cur ^ bit;
                let flags = VaultFlags::from_bits_truncate(newf);
                match self.lock().await.update_folder_flags(&fid, flags).await {
                    Ok(_) => {
                        if let Some(f) = self.model.folders.get_mut(&fid) {
                            f.flags = newf;
                        }
                        "ok".into()
                    }
                    Err(e) => format!("err:{}", short_err(&e.to_string())),
                }
            }
            "fdesc" => {
                let Some(fid) = self.folder_of_slot(ju64(s, "fslot")) else { return "skip".into() };
                let d = if val % 5 == 0 { String::new() } else { marker(val, "folder.description") };
                match self.lock().await.set_folder_description(&fid, d.clone()).await {
                    Ok(_) => {
                        if let Some(f) = self.model.folders.get_mut(&fid) {
                            f.description = d;
                        }
                        "ok".into()
                    }
                    Err(e) => format!("err:{}", short_err(&e.to_string())),
                }
            }
            "fdelete" => {
                let fslot = 4 + ju64(s, "fslot") % 4;
                let Some(fid) = self.folder_of_slot(fslot) else { return "skip".into() };
                match self.lock().await.delete_folder(&fid).await {
                    Ok(_) => {
                        self.model.folders.remove(&fid);
                        self.model.fslots.remove(&fslot);
                        self.model.slots.retain(|_, (f, _)| *f != fid);
                        "ok".into()
                    }
                    Err(e) => format!("err:{}", short_err(&e.to_string())),
                }
            }
            "signout_in" => {
                let key: AccessKey = self.password.clone().into();
                let mut a = self.lock().await;
                if let Err(e) = a.sign_out().await {
                    return format!("err:sign_out:{}", short_err(&e.to_string()));
                }
                match a.sign_in(&key).await {
                    Ok(_) => {
                        let _ = a.initialize_search_index().await;
                        "ok".into()
                    }
                    Err(e) => format!("err:sign_in:{}", short_err(&e.to_string())),
                }
            }
            "restart" => match self.open().await {
                Ok(()) => "ok".into(),
                Err(e) => format!("err:{}", short_err(&e.to_string())),
            },
            "compact" => {
                let Some(fid) = self.folder_of_slot(ju64(s, "fslot")) else { return "skip".into() };
                match self.lock().await.compact_folder(&fid).await {
                    Ok(_) => "ok".into(),
                    Err(e) => format!("err:{}", short_err(&e.to_string())),
                }
            }
            "xcreate" | "xupdate" => {
                // a file secret whose content lives in an external encrypted blob
                let size = match ju64(s, "size") % 5 {
                    0 => 0usize,
                    1 => 1,
                    2 => 700,
                    3 => 70_000,
                    _ => 4096,
                };
                let body = xcontent(val, size);
                let src_dir = self.dir.parent().unwrap_or(Path::new("/dev/shm")).join("xsrc");
                let _ = std::fs::create_dir_all(&src_dir);
                let ext = ["txt", "bin", "pdf", "png"][(val % 4) as usize];
                let src = src_dir.join(format!("doc-{val}.{ext}"));
                if std::fs::write(&src, &body).is_err() {
                    return "skip".into();
                }
                let Ok(mut secret) = Secret::try_from(src.clone()) else { return "skip".into() };
                // some attachments hang off a secret that is not a file secret
                let note_root = opn == "xcreate" && ju64(s, "attach") % 3 != 0 && val % 3 == 0;
                if note_root {
                    secret = Secret::Note { text: marker(val, "note.with.attachment").into(), user_data: Default::default() };
                }
                // attachments: further external files as user-data fields of the
                // same secret (several blobs in one secret directory)
                let n_attach = ju64(s, "attach") % 3;
                let mut attach_bodies: Vec<Vec<u8>> = vec![];
                for k in 0..n_attach {
                    let abody = xcontent(val.wrapping_mul(31).wrapping_add(k + 1), 300 + 50 * k as usize);
                    let apath = src_dir.join(format!("attach-{val}-{k}.txt"));
                    if std::fs::write(&apath, &abody).is_err() {
                        continue;
                    }
                    let Ok(asecret) = Secret::try_from(apath.clone()) else { continue };
                    let ameta = SecretMeta::new(format!("attachment {k}"), asecret.kind());
                    let mut b = [0x33u8; 16];
                    b[14] = k as u8;
                    b[15] = (val & 0xff) as u8;
                    b[6] = 0x40 | (b[6] & 0x0f);
                    b[8] = 0x80 | (b[8] & 0x3f);
                    match &mut secret {
                        Secret::File { user_data, .. } | Secret::Note { user_data, .. } => {
                            user_data.push(SecretRow::new(uuid::Uuid::from_bytes(b), ameta, asecret));
                            attach_bodies.push(abody);
                        }
                        _ => {}
                    }
                }
                let meta = make_meta(&secret, ju64(s, "label"), ju64(s, "tags"), jbool(s, "fav"), marker_labels, val);
                let (fid, res_id) = if opn == "xcreate" {
                    let Some(fid) = self.folder_of_slot(ju64(s, "folder")) else { return "skip".into() };
                    let opts = AccessOptions { folder: Some(fid), ..Default::default() };
                    match self.lock().await.create_secret(meta, secret, opts).await {
                        Ok(r) => (fid, r.id),
                        Err(e) => return format!("err:{}", short_err(&e.to_string())),
                    }
                } else {
                    let Some((fid, id)) = self.model.slots.get(&slot).copied() else { return "skip".into() };
                    let is_x = matches!(
                        self.lock().await.read_secret(&id, Some(&fid)).await,
                        Ok((row, _)) if matches!(row.secret(), Secret::File { content: FileContent::External { .. }, .. })
                    );
                    if !is_x {
                        return "skip".into();
                    }
                    let opts = AccessOptions { folder: Some(fid), ..Default::default() };
                    match self.lock().await.update_file(&id, meta, &src, opts).await {
                        Ok(r) => (fid, r.id),
                        Err(e) => return format!("err:{}", short_err(&e.to_string())),
                    }
                };
                // what the account recorded for it
                let row = self.lock().await.read_secret(&res_id, Some(&fid)).await;
                match row {
                    Ok((row, _)) => {
                        if let Secret::File { content: FileContent::External { checksum, .. }, .. } = row.secret() {
                            if let Ok(mut g) = XPLAIN.lock() {
                                g.insert(hex::encode(checksum), sha256_hex(&body));
                            }
                        }
                        for (k, field) in row.secret().user_data().fields().iter().enumerate() {
                            if let (Secret::File { content: FileContent::External { checksum, .. }, .. }, Some(ab)) = (field.secret(), attach_bodies.get(k)) {
                                if let Ok(mut g) = XPLAIN.lock() {
                                    g.insert(hex::encode(checksum), sha256_hex(ab));
                                }
                                rec.stats.count("kind.external_attachment");
                            }
                        }
                        if let Some(f) = self.model.folders.get_mut(&fid) {
                            f.secrets.insert(res_id, secret_m(row.meta(), row.secret()));
                        }
                        self.model.slots.insert(slot, (fid, res_id));
                        rec.stats.count("kind.external_file");
                        "ok".into()
                    }
                    Err(e) => format!("err:read_back:{}", short_err(&e.to_string())),
                }
            }
            "fsnap" => {
                // remember the folder's event log as another replica would hold it
                let fslot = ju64(s, "fslot");
                let Some(fid) = self.folder_of_slot(fslot) else { return "skip".into() };
                let Some(fm) = self.model.folders.get(&fid).cloned() else { return "skip".into() };
                let recs = {
                    use sos_core::events::EventLog;
                    use sos_sync::StorageEventLogs;
                    let a = self.lock().await;
                    let Ok(l) = a.folder_log(&fid).await else { return "skip".into() };
                    let l = l.read().await;
                    match l.diff_records(None).await {
                        Ok(r) => r,
                        Err(e) => return format!("err:{}", short_err(&e.to_string())),
                    }
                };
                self.fsnaps.insert(fslot, (fid, recs, fm));
                "ok".into()
            }
            "frevert" => {
                // the hard-conflict path: replace the whole folder log with the
                // remembered one (ForceMerge::force_merge_folder), as a device does
                // after fetching the server's copy
                let fslot = ju64(s, "fslot");
                let Some((fid, recs, fm)) = self.fsnaps.get(&fslot).cloned() else { return "skip".into() };
                if self.folder_of_slot(fslot) != Some(fid) || recs.is_empty() {
                    return "skip".into();
                }
                use sos_core::commit::CommitTree;
                use sos_core::events::patch::{Diff, Patch};
                use sos_sync::{ForceMerge, MergeOutcome};
                let mut t = CommitTree::new();
                for r in &recs {
                    t.insert(r.commit().0);
                }
                t.commit();
                let Ok(checkpoint) = t.head() else { return "skip".into() };
                let diff = Diff::new(Patch::new(recs.clone()), checkpoint, None);
                let mut outcome = MergeOutcome::default();
                let res = self.lock().await.force_merge_folder(&fid, diff, &mut outcome).await;
                match res {
                    Ok(()) => {
                        self.model.folders.insert(fid, fm.clone());
                        let folders = self.model.folders.clone();
                        self.model.slots.retain(|_, (f, id)| {
                            folders.get(f).map(|x| x.secrets.contains_key(id)).unwrap_or(false)
                        });
                        // secrets that exist again become addressable
                        let used: HashSet<SecretId> = self.model.slots.values().map(|x| x.1).collect();
                        let mut free = (0..16u64).filter(|k| !self.model.slots.contains_key(k)).collect::<Vec<_>>();
                        for id in fm.secrets.keys() {
                            if !used.contains(id) {
                                if let Some(k) = free.pop() {
                                    self.model.slots.insert(k, (fid, *id));
                                }
                            }
                        }
                        "ok".into()
                    }
                    Err(e) => format!("err:{}", short_err(&e.to_string())),
                }
            }
            "compact_account" => match self.lock().await.compact_account().await {
                Ok(_) => "ok".into(),
                Err(e) => format!("err:{}", short_err(&e.to_string())),
            },
            "chpw_folder" => {
                let Some(fid) = self.folder_of_slot(ju64(s, "fslot")) else { return "skip".into() };
                let pw: SecretString = format!("folder-pw-{}", marker(val, "folder.password")).into();
                match self.lock().await.change_folder_password(&fid, AccessKey::Password(pw)).await {
                    Ok(_) => "ok".into(),
                    Err(e) => format!("err:{}", short_err(&e.to_string())),
                }
            }
            "chpw_account" => {
                let pw = format!("acct-pw-{}", marker(val, "account.password.new"));
                match self.lock().await.change_account_password(pw.clone().into()).await {
                    Ok(_) => {
                        self.password = pw.into();
                        "ok".into()
                    }
                    Err(e) => format!("err:{}", short_err(&e.to_string())),
                }
            }
            "chcipher" => {
                let key: AccessKey = self.password.clone().into();
                let c = cipher_of(ju64(s, "cipher"));
                let k = kdf_of(ju64(s, "kdf"));
                match self.lock().await.change_cipher(&key, &c, Some(k)).await {
                    Ok(_) => "ok".into(),
                    Err(e) => format!("err:{}", short_err(&e.to_string())),
                }
            }
            _ => "skip".into(),
        }
    }
}

pub fn fname(n: u64, marker_names: bool, val: u64) -> String {
    let _ = (marker_names, val);
    // folder names are documented clear text; a tiny pool makes byte-identical
    // rename events on different devices likely
    ["Work", "Home"][(n % 2) as usize].to_string()
}

pub fn short_err(e: &str) -> String {
    let s: String = e.chars().take(70).collect();
    s.replace('\n', " ")
}

impl Device {
    /// After a merge the served state is the truth: adopt it and make the
    /// secrets created elsewhere addressable through free slots.
    pub async fn refresh_from_served(&mut self, n_slots: u64) -> Result<(), String> {
        let snap = self.snapshot().await?;
        self.model.folders = snap;
        let folders = self.model.folders.clone();
        self.model
            .slots
            .retain(|_, (f, id)| folders.get(f).map(|x| x.secrets.contains_key(id)).unwrap_or(false));
        // folder slots: drop vanished, adopt new user folders
        self.model.fslots.retain(|_, f| folders.contains_key(f));
        let known: std::collections::BTreeSet<VaultId> = self.model.fslots.values().copied().collect();
        let mut free: Vec<u64> = (4..8).filter(|k| !self.model.fslots.contains_key(k)).collect();
        for id in folders.keys() {
            if !known.contains(id) {
                if let Some(k) = free.first().copied() {
                    free.remove(0);
                    self.model.fslots.insert(k, *id);
                }
            }
        }
        let slotted: std::collections::BTreeSet<SecretId> =
            self.model.slots.values().map(|(_, id)| *id).collect();
        let mut free: Vec<u64> = (0..n_slots).filter(|k| !self.model.slots.contains_key(k)).collect();
        for (fid, f) in &folders {
            for sid in f.secrets.keys() {
                if !slotted.contains(sid) {
                    if let Some(k) = free.first().copied() {
                        free.remove(0);
                        self.model.slots.insert(k, (*fid, *sid));
                    }
                }
            }
        }
        Ok(())
    }
}

/// SQLite (WAL mode) checkpoints and removes its `-wal` / `-shm` files when
/// the last connection closes, and `async_sqlite` closes on a worker thread
/// some time after the client handle is dropped. Copying the data directory
/// before that has happened can pair a main file and a WAL from different
/// moments (committed records missing in the copy). Wait until the files are
/// gone (bounded), so that a copied directory is the closed database.
pub fn wait_sqlite_closed(dir: &Path) {
    fn any_wal(p: &Path) -> bool {
        let Ok(rd) = std::fs::read_dir(p) else { return false };
        for e in rd.flatten() {
            let path = e.path();
            if path.is_dir() {
                if any_wal(&path) {
                    return true;
                }
            } else if let Some(n) = path.file_name().and_then(|n| n.to_str()) {
                if n.ends_with("-wal") || n.ends_with("-shm") {
                    return true;
                }
            }
        }
        false
    }
    let t0 = std::time::Instant::now();
    while any_wal(dir) && t0.elapsed() < std::time::Duration::from_secs(10) {
        std::thread::sleep(std::time::Duration::from_millis(2));
    }
    if std::env::var("SOSSIM_TRACE").is_ok() {
        eprintln!("wait_sqlite_closed: {:?} still_open={}", t0.elapsed(), any_wal(dir));
    }
}

/// Consistent copy of a data directory whose sqlite database may still be
/// open somewhere in this process (background tasks of a dropped account can
/// keep a connection alive for an unpredictable time): ordinary files are
/// copied, every `*.db` is copied *through SQLite* (`VACUUM INTO`, a
/// transactionally consistent image without `-wal` / `-shm` side files).
pub async fn snapshot_dir(src: &Path, dst: &Path) -> Result<(), String> {
    wait_sqlite_closed_for(src, std::time::Duration::from_millis(200));
    let mut dbs: Vec<(PathBuf, PathBuf)> = vec![];
    fn walk(src: &Path, dst: &Path, dbs: &mut Vec<(PathBuf, PathBuf)>) -> std::io::Result<()> {
        std::fs::create_dir_all(dst)?;
        for e in std::fs::read_dir(src)? {
            let e = e?;
            let p = e.path();
            let t = dst.join(e.file_name());
            let name = e.file_name().to_string_lossy().to_string();
            if e.file_type()?.is_dir() {
                walk(&p, &t, dbs)?;
            } else if name.ends_with("-wal") || name.ends_with("-shm") {
                continue;
            } else if name.ends_with(".db") {
                dbs.push((p, t));
            } else {
                match std::fs::copy(&p, &t) {
                    Ok(_) => {}
                    Err(e) if e.kind() == std::io::ErrorKind::NotFound => {}
                    Err(e) => return Err(e),
                }
            }
        }
        Ok(())
    }
    walk(src, dst, &mut dbs).map_err(|e| e.to_string())?;
    for (from, to) in dbs {
        let client = sos_database::open_file(&from).await.map_err(|e| e.to_string())?;
        let target = to.to_string_lossy().to_string();
        client
            .conn(move |c| {
                c.execute("VACUUM INTO ?1", [target.as_str()])?;
                Ok(())
            })
            .await
            .map_err(|e| format!("vacuum into: {e}"))?;
        let _ = client.close().await;
    }
    Ok(())
}

fn wait_sqlite_closed_for(dir: &Path, max: std::time::Duration) {
    fn any_wal(p: &Path) -> bool {
        let Ok(rd) = std::fs::read_dir(p) else { return false };
        for e in rd.flatten() {
            let path = e.path();
            if path.is_dir() {
                if any_wal(&path) {
                    return true;
                }
            } else if let Some(n) = path.file_name().and_then(|n| n.to_str()) {
                if n.ends_with("-wal") || n.ends_with("-shm") {
                    return true;
                }
            }
        }
        false
    }
    let t0 = std::time::Instant::now();
    while any_wal(dir) && t0.elapsed() < max {
        std::thread::sleep(std::time::Duration::from_millis(2));
    }
}

pub fn copy_dir_all(src: &Path, dst: &Path) -> std::io::Result<()> {
    std::fs::create_dir_all(dst)?;
    for e in std::fs::read_dir(src)? {
        let e = e?;
        let p = e.path();
        let t = dst.join(e.file_name());
        if e.file_type()?.is_dir() {
            copy_dir_all(&p, &t)?;
        } else {
            // sqlite's -wal/-shm files disappear when the last connection
            // closes; a file that vanishes while copying is not an error
            match std::fs::copy(&p, &t) {
                Ok(_) => {}
                Err(e) if e.kind() == std::io::ErrorKind::NotFound => {}
                Err(e) => return Err(e),
            }
        }
    }
    Ok(())
}

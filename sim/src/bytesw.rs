//! Family `bytes` (C15): malformed stored and transmitted bytes.
//!
//! A real history on one device plus a sync with the real server produce the
//! artefacts: vault and event-log files, event payloads, every request and
//! response body of the sync, a backup archive. Each artefact is mutated
//! (truncation at every offset = torn tail, bit flips, 32-bit length-field
//! edits, byte substitution over the full 0..=255 range at the positions of
//! kind tags, splices of two valid artefacts) and fed to the *normal* entry
//! points: event-log open + `load_tree` + forward and reverse iteration +
//! event decoding, `decode::<T>`, `WireEncodeDecode::decode`, the archive
//! reader, and the server handlers (mutated body, valid signature; hostile
//! bearer tokens). Oracle: an error or a value — never a panic, never a hang,
//! peak allocation <= 64 x input + 40 MiB — and the server answers the next
//! valid request.

use crate::common::*;
use crate::device::*;
use crate::net::*;
use crate::rng::Rng;
use futures::{pin_mut, StreamExt};
use serde_json::json;
use sos_account::Account;
use sos_core::{
    decode,
    events::{AccountEvent, DeviceEvent, EventLog, EventLogType, FileEvent, WriteEvent},
    AccountId, VaultId,
};
use sos_protocol::{
    DiffRequest, DiffResponse, PatchRequest, PatchResponse, ScanRequest, ScanResponse, SyncOptions,
    WireEncodeDecode,
};
use sos_remote_sync::AutoMerge;
use sos_sync::{CreateSet, SyncPacket, SyncStatus};
use sos_vault::Vault;
use std::path::{Path, PathBuf};
use std::sync::atomic::{AtomicBool, Ordering::SeqCst};
use std::sync::Arc;

/// Panics observed by the process-wide hook: (on async threads, on blocking
/// pool threads, last location).
pub static PANICS_ASYNC: std::sync::atomic::AtomicU64 = std::sync::atomic::AtomicU64::new(0);
pub static PANICS_BLOCKING: std::sync::atomic::AtomicU64 = std::sync::atomic::AtomicU64::new(0);
pub static LAST_PANIC: std::sync::Mutex<String> = std::sync::Mutex::new(String::new());

/// Panic location without machine-specific prefixes.
fn norm_site(site: &str) -> String {
    let s = site.replace("/repo/", "");
    match s.find(".cargo/registry/src/") {
        Some(i) => {
            let rest = &s[i + ".cargo/registry/src/".len()..];
            rest.split_once('/').map(|x| x.1.to_string()).unwrap_or(rest.to_string())
        }
        None => s,
    }
}

pub fn install_panic_hook() {
    std::panic::set_hook(Box::new(|info| {
        let t = std::thread::current();
        let name = t.name().unwrap_or("").to_string();
        // `spawn_blocking` jobs (wire decoding) run on the blocking pool; a
        // panic there surfaces to the caller as a join error by design
        if name != "main" {
            PANICS_BLOCKING.fetch_add(1, SeqCst);
        } else {
            PANICS_ASYNC.fetch_add(1, SeqCst);
        }
        if let Ok(mut g) = LAST_PANIC.lock() {
            *g = format!("{} at {}", info.payload().downcast_ref::<&str>().copied().or_else(|| info.payload().downcast_ref::<String>().map(|s| s.as_str())).unwrap_or("panic"), info.location().map(|l| format!("{}:{}", l.file(), l.line())).unwrap_or_default());
        }
    }));
}

pub fn generate(property: &str, seed: u64, tier: Tier) -> Plan {
    let mut r = Rng::new(seed).fork("bytes");
    let mut steps = vec![];
    let mut val = seed.wrapping_mul(4099) % 1_000_000;
    steps.push(json!({"op":"fcreate","fslot":0,"name":r.below(2),"cipher":r.below(2),"kdf":0,"val":val}));
    for _ in 0..r.range(3, 8) {
        val += 1;
        let k = r.below(5);
        steps.push(match k {
            0 | 1 | 2 => json!({"op":"create","slot":r.below(5),"folder":*r.pick(&[0u64,4]),"kind":r.below(15),"val":val,"label":r.below(3),"tags":r.below(8),"fav":false,"big":false}),
            3 => json!({"op":"update","slot":r.below(5),"val":val,"label":r.below(3),"tags":r.below(8),"fav":true,"meta_only":false}),
            _ => json!({"op":"fdesc","fslot":0,"val":val}),
        });
    }
    Plan {
        family: "bytes".into(),
        property: property.into(),
        seed,
        config: json!({"mutants_per_artefact": match tier { Tier::Quick => 160, Tier::Thorough => 1500 }}),
        steps,
    }
}

#[derive(Clone)]
enum Kind {
    FolderLog,
    AccountLog,
    DeviceLog,
    FileLog,
    VaultFile,
    EventPayload(&'static str),
    Wire(&'static str),
    Archive,
    PairUrl,
}

impl Kind {
    fn name(&self) -> String {
        match self {
            Kind::FolderLog => "file:folder.events".into(),
            Kind::AccountLog => "file:account.events".into(),
            Kind::DeviceLog => "file:devices.events".into(),
            Kind::FileLog => "file:files.events".into(),
            Kind::VaultFile => "file:vault".into(),
            Kind::EventPayload(t) => format!("event:{t}"),
            Kind::Wire(t) => format!("wire:{t}"),
            Kind::Archive => "file:archive".into(),
            Kind::PairUrl => "url:pairing".into(),
        }
    }
}


/// `sos_net` is not linked into the simulator (reqwest, websockets). The pairing
/// URL parser is one self-contained source file of it: it is compiled here from
/// /repo's working tree as it stands; only the error enum it converts into is a
/// stand-in (same variants / `From` conversions as `sos_net::pairing::Error`
/// for the errors this file can produce).
pub mod pairing_shim {
    #[derive(Debug, thiserror::Error)]
    pub enum Error {
        #[error("invalid pairing url")]
        InvalidShareUrl,
        #[error(transparent)]
        Url(#[from] url::ParseError),
        #[error(transparent)]
        Hex(#[from] hex::FromHexError),
        #[error(transparent)]
        Core(#[from] sos_core::Error),
        #[error(transparent)]
        Slice(#[from] std::array::TryFromSliceError),
    }
    pub type Result<T> = std::result::Result<T, Error>;
    #[allow(dead_code, unused_imports)]
    #[path = "/repo/crates/net/src/pairing/share_url.rs"]
    pub mod share_url;
}

/// Text-level damage to a pairing URL (what a mistyped, cut, re-encoded or
/// hostile QR code / pasted string looks like).
fn url_mutants(orig: &str, r: &mut Rng) -> Vec<(String, Vec<u8>)> {
    let mut out: Vec<(String, Vec<u8>)> = vec![];
    let b = orig.as_bytes();
    for t in 0..b.len() {
        out.push(("truncate".into(), b[..t].to_vec()));
    }
    for _ in 0..60 {
        let mut m = b.to_vec();
        let pos = r.below(m.len() as u64) as usize;
        m[pos] = *r.pick(&[b'%', b'&', b'=', b'?', b'#', b'+', b'/', b':', b',', 0u8, 0xff, 0xc3, b' ', b'g', b'0', b'x']);
        out.push(("tag_byte".into(), m));
    }
    for _ in 0..40 {
        let mut m = b.to_vec();
        let bit = r.below((m.len() * 8) as u64) as usize;
        m[bit / 8] ^= 1 << (bit % 8);
        out.push(("bitflip".into(), m));
    }
    // parameter-level edits
    if let Some((head, query)) = orig.split_once('?') {
        let pairs: Vec<&str> = query.split('&').collect();
        for i in 0..pairs.len() {
            let mut p = pairs.clone();
            p.remove(i);
            out.push(("param_removed".into(), format!("{head}?{}", p.join("&")).into_bytes()));
            let mut p = pairs.clone();
            p.insert(0, pairs[i]);
            out.push(("param_duplicated".into(), format!("{head}?{}", p.join("&")).into_bytes()));
            let (k, v) = pairs[i].split_once('=').unwrap_or((pairs[i], ""));
            for (name, nv) in [
                ("param_empty", String::new()),
                ("param_odd_hex", format!("{v}a")),
                ("param_short", v.chars().take(v.len() / 2).collect::<String>()),
                ("param_long", v.repeat(64)),
                ("param_not_hex", "zz".repeat(32)),
                ("param_0x", "0x".to_string()),
                ("param_percent", "%".to_string()),
                ("param_multibyte", "0x\u{e9}\u{e9}\u{e9}".to_string()),
                ("param_one_char", "0".to_string()),
            ] {
                let mut p: Vec<String> = pairs.iter().map(|s| s.to_string()).collect();
                p[i] = format!("{k}={nv}");
                out.push((name.into(), format!("{head}?{}", p.join("&")).into_bytes()));
            }
        }
        let mut p = pairs.clone();
        p.reverse();
        out.push(("params_reversed".into(), format!("{head}?{}", p.join("&")).into_bytes()));
    }
    for s in ["", "data:", "data:text/plain,sos-pair", "data:text/plain,sos-pair?", "data:text/plain,sos-pair?aid=0x", "data://text/plain,sos-pair?aid=0", "http://[::1", "data:text/plain,sos-pair?aid=0\u{e9}x"] {
        out.push(("short_garbage".into(), s.as_bytes().to_vec()));
    }
    out
}

fn mutants(orig: &[u8], other: Option<&[u8]>, n: usize, r: &mut Rng) -> Vec<(String, Vec<u8>)> {
    let mut out: Vec<(String, Vec<u8>)> = vec![];
    let len = orig.len();
    if len == 0 {
        return out;
    }
    // truncation at every offset when small, sampled otherwise
    let trunc: Vec<usize> = if len <= n / 3 { (0..len).collect() } else { (0..n / 3).map(|_| r.below(len as u64) as usize).collect() };
    for t in trunc {
        out.push(("truncate".into(), orig[..t].to_vec()));
    }
    for _ in 0..n / 4 {
        let mut b = orig.to_vec();
        let bit = r.below((len * 8) as u64) as usize;
        b[bit / 8] ^= 1 << (bit % 8);
        out.push(("bitflip".into(), b));
    }
    // 32-bit fields (length prefixes are little-endian u32)
    for _ in 0..n / 5 {
        if len < 4 {
            break;
        }
        let pos = r.below((len - 3) as u64) as usize;
        let cur = u32::from_le_bytes([orig[pos], orig[pos + 1], orig[pos + 2], orig[pos + 3]]);
        let v = *r.pick(&[0u32, 1, cur.wrapping_add(1), cur.wrapping_sub(1), 0x7fff_ffff, 0xffff_ffff, 0x0100_0000, (len as u32).wrapping_add(1)]);
        let mut b = orig.to_vec();
        b[pos..pos + 4].copy_from_slice(&v.to_le_bytes());
        out.push(("len_field".into(), b));
    }
    // byte substitution over the full tag space at early positions
    for _ in 0..n / 6 {
        let pos = r.below(len.min(24) as u64) as usize;
        let mut b = orig.to_vec();
        b[pos] = r.below(256) as u8;
        out.push(("tag_byte".into(), b));
    }
    if let Some(o) = other {
        for _ in 0..6 {
            let a = r.below(len as u64) as usize;
            let c = r.below(o.len().max(1) as u64) as usize;
            let mut b = orig[..a].to_vec();
            b.extend_from_slice(&o[c.min(o.len())..]);
            out.push(("splice".into(), b));
        }
    }
    for _ in 0..4 {
        let k = r.range(1, 40) as usize;
        out.push(("random".into(), r.bytes(k)));
    }
    out
}

async fn read_log_file<T>(path: &Path, kind: &Kind, account: AccountId) -> Result<usize, String>
where
    T: Default + binary_stream::futures::Encodable + binary_stream::futures::Decodable + Send + Sync + 'static,
{
    use sos_filesystem::FileSystemEventLog as L;
    type E = sos_backend::Error;
    let mut n = 0usize;
    macro_rules! drive {
        ($log:expr) => {{
            let mut log = $log.map_err(|e| e.to_string())?;
            log.load_tree().await.map_err(|e| e.to_string())?;
            for rev in [false, true] {
                let stream = log.event_stream(rev).await;
                pin_mut!(stream);
                let mut guard = 0;
                while let Some(r) = stream.next().await {
                    guard += 1;
                    if guard > 100_000 {
                        return Err("iteration does not end".into());
                    }
                    let _ = r.map_err(|e| e.to_string())?;
                    n += 1;
                }
            }
        }};
    }
    match kind {
        Kind::FolderLog => drive!(L::<WriteEvent, E>::new_folder(path, account, EventLogType::Folder(VaultId::nil())).await),
        Kind::AccountLog => drive!(L::<AccountEvent, E>::new_account(path, account).await),
        Kind::DeviceLog => drive!(L::<DeviceEvent, E>::new_device(path, account).await),
        Kind::FileLog => drive!(L::<FileEvent, E>::new_file(path, account).await),
        _ => {}
    }
    let _ = std::marker::PhantomData::<T>;
    Ok(n)
}

/// Feed one mutant to its entry point. Ok(class) or Err(panic text).
async fn feed(kind: Kind, bytes: Vec<u8>, scratch: PathBuf, account: AccountId) -> Result<String, String> {
    let h = tokio::spawn(async move {
        match &kind {
            Kind::FolderLog | Kind::AccountLog | Kind::DeviceLog | Kind::FileLog => {
                let p = scratch.join("m.events");
                let _ = std::fs::write(&p, &bytes);
                match read_log_file::<WriteEvent>(&p, &kind, account).await {
                    Ok(_) => "value",
                    Err(_) => "error",
                }
            }
            Kind::VaultFile => {
                let p = scratch.join("m.vault");
                let _ = std::fs::write(&p, &bytes);
                let a = decode::<Vault>(&bytes).await.is_ok();
                let b = sos_vault::Header::read_summary_file(&p).await.is_ok();
                let c = sos_vault::Header::read_header_file(&p).await.is_ok();
                if a || b || c { "value" } else { "error" }
            }
            Kind::EventPayload(t) => {
                let ok = match *t {
                    "write" => decode::<WriteEvent>(&bytes).await.is_ok(),
                    "account" => decode::<AccountEvent>(&bytes).await.is_ok(),
                    "device" => decode::<DeviceEvent>(&bytes).await.is_ok(),
                    _ => decode::<FileEvent>(&bytes).await.is_ok(),
                };
                if ok { "value" } else { "error" }
            }
            Kind::Wire(t) => {
                let b = bytes::Bytes::from(bytes);
                let ok = match *t {
                    "req:create" | "req:update" => CreateSet::decode(b).await.is_ok(),
                    "req:sync" | "resp:sync" => SyncPacket::decode(b).await.is_ok(),
                    "req:scan" => ScanRequest::decode(b).await.is_ok(),
                    "resp:scan" => ScanResponse::decode(b).await.is_ok(),
                    "req:diff" => DiffRequest::decode(b).await.is_ok(),
                    "resp:diff" => DiffResponse::decode(b).await.is_ok(),
                    "req:patch" => PatchRequest::decode(b).await.is_ok(),
                    "resp:patch" => PatchResponse::decode(b).await.is_ok(),
                    "resp:status" => SyncStatus::decode(b).await.is_ok(),
                    // pairing relay packets: decoded as the receive loop of an
                    // endpoint does (protobuf decode, then `is_handshake()` is the
                    // first thing asked of every received packet) and as the
                    // relay server does (split off the recipient key)
                    "relay:packet" => {
                        use sos_protocol::{ProtoMessage, RelayPacket};
                        match RelayPacket::decode_proto(b).await {
                            Ok(p) => {
                                let _ = p.is_handshake();
                                true
                            }
                            Err(_) => false,
                        }
                    }
                    "relay:prefixed" => sos_protocol::RelayPacket::decode_split(b.to_vec()).is_ok(),
                    _ => CreateSet::decode(b).await.is_ok(),
                };
                if ok { "value" } else { "error" }
            }
            Kind::PairUrl => {
                use pairing_shim::share_url::ServerPairUrl;
                match std::str::from_utf8(&bytes) {
                    Ok(t) => match t.parse::<ServerPairUrl>() {
                        Ok(u) => {
                            // what the accepting side does next with a parsed offer
                            let _ = (u.account_id().to_string(), u.server().as_str().len(), u.public_key().len(), u.pre_shared_key());
                            let back: url::Url = u.into();
                            let _ = back.to_string().parse::<ServerPairUrl>();
                            "value"
                        }
                        Err(_) => "error",
                    },
                    Err(_) => "error",
                }
            }
            Kind::Archive => {
                let p = scratch.join("m.zip");
                let _ = std::fs::write(&p, &bytes);
                if sos_backend::archive::list_backup_archive_accounts(&p).await.is_ok() { "value" } else { "error" }
            }
        }
    });
    match tokio::time::timeout(std::time::Duration::from_secs(20), h).await {
        Ok(Ok(c)) => Ok(c.to_string()),
        Ok(Err(e)) => Err(format!("panic: {e}")),
        Err(_) => Err("hang: no result within 20 s".into()),
    }
}

pub async fn execute(plan: Plan, dir: &Path) -> RunOutcome {
    let mut rec = Recorder::default();
    install_panic_hook();
    let n_mut = jusize(&plan.config, "mutants_per_artefact").max(20);
    let mut rng = Rng::new(plan.seed).fork("mutants");
    macro_rules! harness_err {
        ($msg:expr) => {{
            let mut o = rec.finish(plan);
            o.harness_error = Some($msg);
            return o;
        }};
    }
    // ---- produce the artefacts with the real code
    let server = match SimServer::start(&dir.join("server"), false, None).await {
        Ok(s) => s,
        Err(e) => harness_err!(format!("server: {e}")),
    };
    let net = SimNet::new(server.router.clone());
    net.0.tap_on.store(true, SeqCst);
    let mut dev = match Device::create("d0", &dir.join("d0"), BackendKind::Fs, "bytes world password 1", true).await {
        Ok(d) => d,
        Err(e) => harness_err!(format!("create: {e}")),
    };
    let account_id = dev.account_id;
    let online = Arc::new(AtomicBool::new(true));
    let bridge = match SimBridge::new(&net, 0, dev.shared(), online).await {
        Ok(b) => b,
        Err(e) => harness_err!(format!("bridge: {e}")),
    };
    let _ = bridge.execute_sync(&SyncOptions::default()).await;
    let steps = plan.steps.clone();
    for (idx, s) in steps.iter().enumerate() {
        let c = dev.exec(s, &mut rec, 0).await;
        rec.step(idx, &jstr(s, "op"), c.split(':').next().unwrap_or(""), "");
        if idx % 3 == 2 {
            let _ = bridge.execute_sync(&SyncOptions::default()).await;
        }
    }
    let _ = bridge.execute_sync(&SyncOptions::default()).await;
    let archive = dir.join("export.zip");
    {
        let a = dev.lock().await;
        let _ = a.export_backup_archive(&archive).await;
    }
    let mut artefacts: Vec<(Kind, Vec<u8>)> = vec![];
    {
        let a = dev.lock().await;
        let paths = a.paths();
        for (fid, _) in dev.model.folders.iter().take(3) {
            if let Ok(b) = std::fs::read(paths.event_log_path(fid)) {
                artefacts.push((Kind::FolderLog, b));
            }
            if let Ok(b) = std::fs::read(paths.vault_path(fid)) {
                artefacts.push((Kind::VaultFile, b));
            }
        }
        if let Ok(b) = std::fs::read(paths.account_events()) {
            artefacts.push((Kind::AccountLog, b));
        }
        if let Ok(b) = std::fs::read(paths.device_events()) {
            artefacts.push((Kind::DeviceLog, b));
        }
        if let Ok(b) = std::fs::read(paths.file_events()) {
            artefacts.push((Kind::FileLog, b));
        }
        if let Ok(b) = std::fs::read(paths.identity_events()) {
            artefacts.push((Kind::FolderLog, b));
        }
    }
    // event payloads
    for (log, tag) in [("account", "account"), ("device", "device"), ("files", "file")] {
        let logs = crate::netoracle::device_logs(&dev).await.unwrap_or_default();
        let _ = (log, tag, logs);
    }
    {
        use sos_sync::StorageEventLogs;
        let a = dev.lock().await;
        if let Ok(l) = a.account_log().await {
            let l = l.read().await;
            let s = l.record_stream(false).await;
            pin_mut!(s);
            while let Some(Ok(r)) = s.next().await {
                artefacts.push((Kind::EventPayload("account"), r.event_bytes().to_vec()));
            }
        }
        if let Ok(l) = a.device_log().await {
            let l = l.read().await;
            let s = l.record_stream(false).await;
            pin_mut!(s);
            while let Some(Ok(r)) = s.next().await {
                artefacts.push((Kind::EventPayload("device"), r.event_bytes().to_vec()));
            }
        }
        for (fid, _) in dev.model.folders.iter().take(2) {
            if let Ok(l) = a.folder_log(fid).await {
                let l = l.read().await;
                let s = l.record_stream(false).await;
                pin_mut!(s);
                let mut k = 0;
                while let Some(Ok(r)) = s.next().await {
                    k += 1;
                    if k <= 4 {
                        artefacts.push((Kind::EventPayload("write"), r.event_bytes().to_vec()));
                    }
                }
            }
        }
    }
    // wire buffers (one per kind)
    let mut wire: Vec<(String, Vec<u8>)> = std::mem::take(&mut *net.0.tap.lock().unwrap());
    wire.retain(|(_, b)| !b.is_empty());
    let mut seen = std::collections::BTreeSet::new();
    for (k, b) in &wire {
        let tag: &'static str = match k.as_str() {
            "req:create" => "req:create",
            "req:sync" => "req:sync",
            "resp:sync" => "resp:sync",
            "req:scan" => "req:scan",
            "resp:scan" => "resp:scan",
            "req:diff" => "req:diff",
            "resp:diff" => "resp:diff",
            "req:patch" => "req:patch",
            "resp:patch" => "resp:patch",
            "resp:status" => "resp:status",
            _ => continue,
        };
        if seen.insert(tag) {
            artefacts.push((Kind::Wire(tag), b.clone()));
        }
    }
    // pairing relay packets (the pairing protocol itself is not simulated;
    // its wire decoding is)
    {
        use sos_protocol::{ProtoMessage, RelayHeader, RelayPacket, RelayPayload};
        let mk = |handshake: bool| RelayPacket {
            header: Some(RelayHeader { to_public_key: vec![7u8; 32], from_public_key: vec![9u8; 32] }),
            payload: Some(if handshake {
                RelayPayload::new_handshake(48, vec![0x5a; 48])
            } else {
                RelayPayload::new_transport(80, vec![0xa5; 80])
            }),
        };
        for hs in [true, false] {
            if let Ok(b) = mk(hs).encode_proto().await {
                artefacts.push((Kind::Wire("relay:packet"), b));
            }
            if let Ok(b) = mk(hs).encode_prefixed().await {
                artefacts.push((Kind::Wire("relay:prefixed"), b));
            }
        }
    }
    if let Ok(b) = std::fs::read(&archive) {
        if b.len() < 200_000 {
            artefacts.push((Kind::Archive, b));
        }
    }
    // a pairing URL as the offering device shows it (QR code / pasted text)
    {
        use pairing_shim::share_url::ServerPairUrl;
        let server: url::Url = "http://192.168.1.8:5053/foo?bar=baz+qux".parse().expect("url");
        let offer = ServerPairUrl::new(account_id, server, (0u8..32).map(|i| i.wrapping_mul(37) ^ 0x5a).collect());
        let u: url::Url = offer.into();
        artefacts.push((Kind::PairUrl, u.to_string().into_bytes()));
    }
    dev.account = None;

    // ---- mutate and feed
    let scratch = dir.join("scratch");
    let _ = std::fs::create_dir_all(&scratch);
    let mut total = 0u64;
    let all: Vec<Vec<u8>> = artefacts.iter().map(|a| a.1.clone()).collect();
    for (i, (kind, orig)) in artefacts.iter().enumerate() {
        // the valid artefact itself must be accepted
        match feed(kind.clone(), orig.clone(), scratch.clone(), account_id).await {
            Ok(c) if c == "value" => {}
            Ok(_) => rec.stats.count(&format!("c15.valid_rejected.{}", kind.name())),
            Err(e) => rec.violate("C15", &format!("C15/{}/valid_input/{}", kind.name(), e.split(':').next().unwrap_or("")), e),
        }
        let per = if matches!(kind, Kind::Archive) { n_mut / 4 } else { n_mut };
        let other = all.get((i + 1) % all.len()).map(|v| v.as_slice());
        let ms = if matches!(kind, Kind::PairUrl) {
            url_mutants(std::str::from_utf8(orig).unwrap_or(""), &mut rng)
        } else {
            mutants(orig, other, per, &mut rng)
        };
        for (mname, m) in ms {
            total += 1;
            rec.case(&format!("{}:{}", kind.name(), mname));
            rec.stats.fault(&format!("bytes.{mname}"));
            let in_len = m.len();
            let mark = crate::alloc::mark();
            let p0 = PANICS_ASYNC.load(SeqCst);
            let res = feed(kind.clone(), m.clone(), scratch.clone(), account_id).await;
            let peak = crate::alloc::peak_above(mark);
            if PANICS_ASYNC.load(SeqCst) > p0 && res.is_ok() {
                // a panic that did not reach the caller: a helper task died and
                // the reader silently stopped
                let loc = LAST_PANIC.lock().map(|g| g.clone()).unwrap_or_default();
                let site = norm_site(loc.rsplit(" at ").next().unwrap_or(""));
                rec.violate(
                    "C15",
                    &format!("C15/{}/panic_in_helper_task/{}", kind.name(), site),
                    format!("{} bytes ({mname} of a valid {}): {loc}; input hex (first 96 bytes): {}", in_len, kind.name(), hex::encode(&m[..m.len().min(96)])),
                );
            }
            match res {
                Ok(c) => rec.stats.count(&format!("c15.{c}")),
                Err(e) => {
                    let class = if e.starts_with("panic") {
                        let loc = LAST_PANIC.lock().map(|g| g.clone()).unwrap_or_default();
                        format!("panic/{}", norm_site(loc.rsplit(" at ").next().unwrap_or("")))
                    } else {
                        "hang".to_string()
                    };
                    rec.violate(
                        "C15",
                        &format!("C15/{}/{class}", kind.name()),
                        format!("{} bytes ({mname} of a valid {}): {} ; input hex (first 96 bytes): {}", in_len, kind.name(), e, hex::encode(&m[..m.len().min(96)])),
                    );
                }
            }
            if peak > 64 * in_len + (40 << 20) {
                rec.violate(
                    "C15",
                    &format!("C15/{}/allocation_out_of_proportion", kind.name()),
                    format!("{} input bytes made the decoder allocate {} bytes at peak", in_len, peak),
                );
            }
        }
    }
    // ---- the server: mutated bodies with a valid signature, hostile tokens
    let dev2 = Device::open_existing("d0", &dir.join("d0"), BackendKind::Fs, account_id, "bytes world password 1".to_string().into()).await;
    if let Ok(dev2) = dev2 {
        let online = Arc::new(AtomicBool::new(true));
        if let Ok(b) = SimBridge::new(&net, 0, dev2.shared(), online).await {
            for (k, body) in wire.iter().filter(|(k, _)| k.starts_with("req:")).take(6) {
                let (method, route) = match k.as_str() {
                    "req:sync" => (http::Method::PATCH, ROUTE_ACCOUNT),
                    "req:scan" => (http::Method::GET, ROUTE_EVENTS),
                    "req:diff" => (http::Method::POST, ROUTE_EVENTS),
                    "req:patch" => (http::Method::PATCH, ROUTE_EVENTS),
                    "req:create" => (http::Method::PUT, ROUTE_ACCOUNT),
                    _ => continue,
                };
                for (mname, m) in mutants(body, None, (n_mut / 4).max(12), &mut rng) {
                    total += 1;
                    rec.case(&format!("server:{k}:{mname}"));
                    let h = {
                        let c = b.client.clone();
                        let method = method.clone();
                        let kind = format!("mutated:{k}");
                        tokio::spawn(async move { c.request(&kind, method, route, Some(m)).await })
                    };
                    match tokio::time::timeout(std::time::Duration::from_secs(20), h).await {
                        Ok(Ok(Ok((st, _, _)))) => rec.stats.count(&format!("c15.server.{}", st.as_u16() / 100)),
                        Ok(Ok(Err(_))) => rec.stats.count("c15.server.transport_err"),
                        Ok(Err(e)) => rec.violate("C15", &format!("C15/server:{k}/panic/{mname}"), format!("handler panicked: {e}")),
                        Err(_) => rec.violate("C15", &format!("C15/server:{k}/hang/{mname}"), "no response within 20 s".into()),
                    }
                }
                // the server keeps serving
                use sos_protocol::SyncClient;
                if b.client.sync_status().await.is_err() {
                    rec.violate("C15", &format!("C15/server:{k}/stops_serving"), "a valid status request fails after malformed requests".into());
                }
            }
            // hostile bearer tokens
            for t in ["", "Bearer", "Bearer ", "Bearer \u{0}", "Bearer 1111111111111111111111111111111111111111111111111111111111111111111111111111111111111111", "Basic abc", "Bearer ....", "Bearer 0OIl"] {
                total += 1;
                let req = http::Request::builder()
                    .method(http::Method::GET)
                    .uri(format!("{ROUTE_STATUS}?connection_id=x"))
                    .header(X_SOS_ACCOUNT_ID, account_id.to_string())
                    .header(http::header::AUTHORIZATION, http::HeaderValue::from_bytes(t.as_bytes()).unwrap_or(http::HeaderValue::from_static("x")))
                    .body(axum::body::Body::empty());
                if let Ok(req) = req {
                    let n = net.clone();
                    let h = tokio::spawn(async move { n.deliver_now(9, "token", req, &[]).await });
                    match h.await {
                        Ok(Ok((st, _, _))) => {
                            if st.is_success() {
                                rec.violate("C15", "C15/server:token/accepted", format!("token {t:?} answered {st}"));
                            }
                        }
                        Ok(Err(_)) => {}
                        Err(e) => rec.violate("C15", "C15/server:token/panic", format!("{e}")),
                    }
                }
            }
        }
    }
    rec.stats.count_n("cases", total);
    rec.stats.count_n("c15.mutants", total);
    rec.stats.probe_n("c15.panics_surfaced_as_join_error_on_blocking_pool", PANICS_BLOCKING.load(SeqCst));
    rec.finish(plan)
}

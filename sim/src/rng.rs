//! The simulator's own PRNG (SplitMix64). Every scheduling, workload and
//! fault decision of a run is drawn from streams derived from the run seed.

#[derive(Clone, Debug)]
pub struct Rng {
    s: u64,
}

const GAMMA: u64 = 0x9E37_79B9_7F4A_7C15;

fn mix(mut z: u64) -> u64 {
    z = (z ^ (z >> 30)).wrapping_mul(0xBF58_476D_1CE4_E5B9);
    z = (z ^ (z >> 27)).wrapping_mul(0x94D0_49BB_1331_11EB);
    z ^ (z >> 31)
}

pub fn hash_str(s: &str) -> u64 {
    let mut h: u64 = 0xcbf2_9ce4_8422_2325;
    for b in s.as_bytes() {
        h ^= *b as u64;
        h = h.wrapping_mul(0x0000_0100_0000_01B3);
    }
    mix(h)
}

impl Rng {
    pub fn new(seed: u64) -> Self {
        Rng { s: mix(seed ^ 0xD1B5_4A32_D192_ED03) }
    }
    /// Independent sub-stream for a named purpose.
    pub fn fork(&self, label: &str) -> Rng {
        Rng { s: mix(self.s ^ hash_str(label)) }
    }
    pub fn next_u64(&mut self) -> u64 {
        self.s = self.s.wrapping_add(GAMMA);
        mix(self.s)
    }
    /// Uniform in 0..n (n > 0).
    pub fn below(&mut self, n: u64) -> u64 {
        debug_assert!(n > 0);
        ((self.next_u64() as u128 * n as u128) >> 64) as u64
    }
    pub fn range(&mut self, lo: u64, hi_incl: u64) -> u64 {
        lo + self.below(hi_incl - lo + 1)
    }
    pub fn chance(&mut self, num: u64, den: u64) -> bool {
        self.below(den) < num
    }
    pub fn pick<'a, T>(&mut self, xs: &'a [T]) -> &'a T {
        &xs[self.below(xs.len() as u64) as usize]
    }
    /// Index drawn according to integer weights (all-zero ⇒ index 0).
    pub fn weighted(&mut self, w: &[u64]) -> usize {
        let total: u64 = w.iter().sum();
        if total == 0 {
            return 0;
        }
        let mut x = self.below(total);
        for (i, wi) in w.iter().enumerate() {
            if x < *wi {
                return i;
            }
            x -= *wi;
        }
        w.len() - 1
    }
    pub fn bytes(&mut self, n: usize) -> Vec<u8> {
        let mut v = Vec::with_capacity(n);
        while v.len() < n {
            let x = self.next_u64().to_le_bytes();
            let k = (n - v.len()).min(8);
            v.extend_from_slice(&x[..k]);
        }
        v
    }
    pub fn alnum(&mut self, n: usize) -> String {
        const A: &[u8] = b"abcdefghijklmnopqrstuvwxyzABCDEFGHIJKLMNOPQRSTUVWXYZ0123456789";
        (0..n).map(|_| *self.pick(A) as char).collect()
    }
}

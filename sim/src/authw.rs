//! C11: the adversary is a fault source of the simulated network. At chosen
//! points of a multi-device history it injects, for every route x method of
//! the server API, requests with every invalid credential form; each must be
//! refused and leave the server's observable state untouched, while the
//! requests of trusted devices keep working.

use crate::common::*;
use crate::net::*;
use crate::netoracle as no;
use crate::netw::NetWorld;
use http::{Method, Request};
use serde_json::Value;
use sos_account::Account;
use sos_core::{events::EventLogType, AccountId};
use sos_protocol::{DiffRequest, PatchRequest, ScanRequest, WireEncodeDecode};
use sos_signer::ed25519::BoxedEd25519Signer;
use sos_sync::{SyncPacket, SyncStorage};
use std::collections::BTreeMap;

#[derive(Clone)]
struct Route {
    name: &'static str,
    method: Method,
    path: String,
    body: Option<Vec<u8>>,
    query: String,
}

/// Valid request bodies (what a trusted device would send right now), so
/// that a missing credential check would be answered 200.
async fn routes(world: &NetWorld, di: usize) -> Vec<Route> {
    let a = world.devices[di].dev.lock().await;
    let mut out = vec![];
    let create = match a.create_set().await {
        Ok(c) => c.encode().await.ok(),
        Err(_) => None,
    };
    let status = a.sync_status().await.ok();
    let sync_body = match &status {
        Some(s) => SyncPacket { status: s.clone(), diff: Default::default(), compare: None }.encode().await.ok(),
        None => None,
    };
    let scan = ScanRequest { log_type: EventLogType::Identity, limit: 8, offset: 0 }.encode().await.ok();
    let diff = DiffRequest { log_type: EventLogType::Identity, from_hash: None }.encode().await.ok();
    let patch = match &status {
        Some(s) => PatchRequest {
            log_type: EventLogType::Identity,
            commit: None,
            proof: s.identity.1.clone(),
            patch: vec![],
        }
        .encode()
        .await
        .ok(),
        None => None,
    };
    let files = sos_protocol::transfer::FileSet(Default::default()).encode().await.ok();
    let acct = ROUTE_ACCOUNT.to_string();
    out.push(Route { name: "create_account", method: Method::PUT, path: acct.clone(), body: create.clone(), query: String::new() });
    out.push(Route { name: "update_account", method: Method::POST, path: acct.clone(), body: create, query: String::new() });
    out.push(Route { name: "sync_account", method: Method::PATCH, path: acct.clone(), body: sync_body, query: String::new() });
    out.push(Route { name: "fetch_account", method: Method::GET, path: acct.clone(), body: None, query: String::new() });
    out.push(Route { name: "account_exists", method: Method::HEAD, path: acct.clone(), body: None, query: String::new() });
    out.push(Route { name: "delete_account", method: Method::DELETE, path: acct, body: None, query: String::new() });
    out.push(Route { name: "sync_status", method: Method::GET, path: ROUTE_STATUS.into(), body: None, query: String::new() });
    out.push(Route { name: "event_scan", method: Method::GET, path: ROUTE_EVENTS.into(), body: scan, query: String::new() });
    out.push(Route { name: "event_diff", method: Method::POST, path: ROUTE_EVENTS.into(), body: diff, query: String::new() });
    out.push(Route { name: "event_patch", method: Method::PATCH, path: ROUTE_EVENTS.into(), body: patch, query: String::new() });
    out.push(Route { name: "compare_files", method: Method::POST, path: ROUTE_FILES.into(), body: files, query: String::new() });
    // file routes: a plausible (vault, secret, name) triple
    let vault = world.devices[di].dev.model.fslots.get(&0).copied().unwrap_or_default();
    let secret = uuid::Uuid::from_bytes([0x51; 16]);
    let name = "ab".repeat(32);
    let fp = format!("/api/v1/sync/file/{vault}/{secret}/{name}");
    out.push(Route { name: "receive_file", method: Method::PUT, path: fp.clone(), body: Some(b"forged upload".to_vec()), query: String::new() });
    out.push(Route { name: "send_file", method: Method::GET, path: fp.clone(), body: None, query: String::new() });
    out.push(Route { name: "delete_file", method: Method::DELETE, path: fp.clone(), body: None, query: String::new() });
    out.push(Route {
        name: "move_file",
        method: Method::POST,
        path: fp,
        body: None,
        query: format!("&vault_id={vault}&secret_id={secret}&name={}", "cd".repeat(32)),
    });
    out
}

/// What the shipped client signs for a route.
fn signed_bytes(r: &Route) -> Vec<u8> {
    match (r.name, &r.body) {
        // body for create / update / sync / scan / diff / patch
        ("create_account" | "update_account" | "sync_account" | "event_scan" | "event_diff" | "event_patch", Some(b)) => b.clone(),
        // the path for everything else, including compare_files and file routes
        _ => r.path.as_bytes().to_vec(),
    }
}

#[derive(Clone)]
struct Cred {
    name: &'static str,
    header_account: Option<AccountId>,
    authorization: Option<String>,
}

async fn build_creds(
    world: &NetWorld,
    di: usize,
    r: &Route,
    other: Option<AccountId>,
    revoked: Option<&BoxedEd25519Signer>,
) -> Vec<Cred> {
    let account_id = world.devices[di].dev.account_id;
    let signer: BoxedEd25519Signer = {
        let a = world.devices[di].dev.lock().await;
        match a.device_signer().await {
            Ok(s) => s.into(),
            Err(_) => return vec![],
        }
    };
    let sb = signed_bytes(r);
    let good = bearer(&signer, &sb).await.ok();
    let unknown: BoxedEd25519Signer = Box::new(sos_signer::ed25519::SingleParty::new_random());
    let by_unknown = bearer(&unknown, &sb).await.ok();
    let mut other_bytes = sb.clone();
    other_bytes.extend_from_slice(b"x");
    let over_other = bearer(&signer, &other_bytes).await.ok();
    let mut v = vec![
        Cred { name: "none", header_account: Some(account_id), authorization: None },
        Cred { name: "malformed_base58", header_account: Some(account_id), authorization: Some("Bearer !!not-base58-0OIl!!".into()) },
        Cred { name: "not_a_signature", header_account: Some(account_id), authorization: Some(format!("Bearer {}", bs58::encode(b"short").into_string())) },
        Cred { name: "legacy_period_delimited", header_account: None, authorization: good.clone().map(|g| format!("{g}.{}", &g[7..])) },
        Cred { name: "legacy_no_account_header", header_account: None, authorization: good.clone() },
        Cred { name: "unknown_key", header_account: Some(account_id), authorization: by_unknown },
        Cred { name: "valid_key_other_bytes", header_account: Some(account_id), authorization: over_other },
    ];
    if let Some(o) = other {
        v.push(Cred { name: "valid_key_of_another_account", header_account: Some(o), authorization: good.clone() });
    }
    if let Some(k) = revoked {
        v.push(Cred { name: "revoked_key", header_account: Some(account_id), authorization: bearer(k, &sb).await.ok() });
    }
    v
}

fn request(r: &Route, c: &Cred) -> Option<Request<axum::body::Body>> {
    let mut b = Request::builder()
        .method(r.method.clone())
        .uri(format!("{}?connection_id=adversary{}", r.path, r.query));
    if let Some(a) = &c.header_account {
        b = b.header(X_SOS_ACCOUNT_ID, a.to_string());
    }
    if let Some(a) = &c.authorization {
        b = b.header(http::header::AUTHORIZATION, a.clone());
    }
    if r.body.is_some() {
        b = b.header(http::header::CONTENT_TYPE, MIME_PROTOBUF);
    }
    b.body(axum::body::Body::from(r.body.clone().unwrap_or_default())).ok()
}

/// Everything the server holds: every account's logs plus the blob listing.
async fn server_state(world: &NetWorld, accounts: &[AccountId]) -> BTreeMap<String, String> {
    let mut m = BTreeMap::new();
    for id in accounts {
        if let Some(s) = world.server.account(id).await {
            let s = s.read().await;
            if let Ok(l) = no::storage_logs(&*s).await {
                for (k, v) in l {
                    m.insert(format!("{id}:{k}"), short_hash(&format!("{v:?}")));
                }
            }
        } else {
            m.insert(format!("{id}"), "absent".into());
        }
    }
    // files stored by the file routes
    fn walk(p: &std::path::Path, out: &mut Vec<String>) {
        if let Ok(rd) = std::fs::read_dir(p) {
            for e in rd.flatten() {
                let path = e.path();
                if path.is_dir() {
                    walk(&path, out);
                } else {
                    let n = path.to_string_lossy().to_string();
                    if n.contains("/files/") || n.contains("/blobs/") {
                        out.push(n);
                    }
                }
            }
        }
    }
    let mut files = vec![];
    walk(&world.server.dir, &mut files);
    files.sort();
    m.insert("blobs".into(), short_hash(&files.join("|")));
    m
}

/// Inject the whole product route x credential at this point of the history.
pub async fn forge_sweep(world: &mut NetWorld, s: &Value, rec: &mut Recorder) -> String {
    let di = jusize(s, "dev") % world.devices.len();
    let other = world.other_account;
    let mut accounts = vec![world.devices[0].dev.account_id];
    if let Some(o) = other {
        accounts.push(o);
    }
    let revoked = world.revoked_key.clone();
    let rs = routes(world, di).await;
    let mut refused = 0u64;
    let mut tried = 0u64;
    for r in &rs {
        let creds = build_creds(world, di, r, other, revoked.as_ref()).await;
        for c in &creds {
            let Some(req) = request(r, c) else { continue };
            let before = server_state(world, &accounts).await;
            tried += 1;
            rec.case(&format!("{}:{}", r.name, c.name));
            let res = world
                .net
                .deliver_now(99, &format!("forged:{}", r.name), req, r.body.as_deref().unwrap_or(&[]))
                .await;
            rec.stats.fault("net.forge");
            let status = match &res {
                Ok((st, _, _)) => st.as_u16(),
                Err(_) => 0,
            };
            let after = server_state(world, &accounts).await;
            if after != before {
                rec.violate(
                    "C11",
                    &format!("C11/forged_request_changed_server_state/{}/{}", r.name, c.name),
                    format!("{} {} with credential form '{}' answered {status}: server state changed", r.method, r.path, c.name),
                );
            }
            if (400..500).contains(&status) {
                refused += 1;
            } else {
                rec.violate(
                    "C11",
                    &format!("C11/forged_request_not_refused/{}/{}", r.name, c.name),
                    format!("{} {} with credential form '{}' answered {status} instead of a refusal", r.method, r.path, c.name),
                );
            }
        }
    }
    rec.stats.count_n("c11.forged_requests", tried);
    rec.stats.count_n("cases", tried);
    format!("refused{}of{}", refused, tried)
}

/// Accounts that the access configuration excludes must be refused on every
/// endpoint even with valid credentials of their own devices.
pub async fn excluded_account_sweep(world: &mut NetWorld, rec: &mut Recorder) -> String {
    let Some(idx) = world.excluded_device else { return "skip".into() };
    let signer: BoxedEd25519Signer = {
        let a = world.extra[idx].dev.lock().await;
        match a.device_signer().await {
            Ok(s) => s.into(),
            Err(_) => return "skip".into(),
        }
    };
    let account_id = world.extra[idx].dev.account_id;
    // build the routes from the excluded account's own point of view
    let rs = {
        let tmp_world_routes = {
            // same bodies, but made by the excluded account
            let a = world.extra[idx].dev.lock().await;
            let create = match a.create_set().await {
                Ok(c) => c.encode().await.ok(),
                Err(_) => None,
            };
            let status = a.sync_status().await.ok();
            let sync_body = match &status {
                Some(s) => SyncPacket { status: s.clone(), diff: Default::default(), compare: None }.encode().await.ok(),
                None => None,
            };
            vec![
                Route { name: "create_account", method: Method::PUT, path: ROUTE_ACCOUNT.into(), body: create.clone(), query: String::new() },
                Route { name: "update_account", method: Method::POST, path: ROUTE_ACCOUNT.into(), body: create, query: String::new() },
                Route { name: "sync_account", method: Method::PATCH, path: ROUTE_ACCOUNT.into(), body: sync_body, query: String::new() },
                Route { name: "fetch_account", method: Method::GET, path: ROUTE_ACCOUNT.into(), body: None, query: String::new() },
                Route { name: "account_exists", method: Method::HEAD, path: ROUTE_ACCOUNT.into(), body: None, query: String::new() },
                Route { name: "sync_status", method: Method::GET, path: ROUTE_STATUS.into(), body: None, query: String::new() },
                Route { name: "compare_files", method: Method::POST, path: ROUTE_FILES.into(), body: sos_protocol::transfer::FileSet(Default::default()).encode().await.ok(), query: String::new() },
            ]
        };
        tmp_world_routes
    };
    let mut refused = 0;
    let mut tried = 0;
    let accounts = vec![world.devices[0].dev.account_id, account_id];
    for r in &rs {
        let sb = signed_bytes(r);
        let Ok(auth) = bearer(&signer, &sb).await else { continue };
        let c = Cred { name: "valid_key_of_excluded_account", header_account: Some(account_id), authorization: Some(auth) };
        let Some(req) = request(r, &c) else { continue };
        let before = server_state(world, &accounts).await;
        tried += 1;
        rec.case(&format!("excluded:{}", r.name));
        let res = world.net.deliver_now(98, &format!("excluded:{}", r.name), req, r.body.as_deref().unwrap_or(&[])).await;
        let status = match &res {
            Ok((st, _, _)) => st.as_u16(),
            Err(_) => 0,
        };
        let after = server_state(world, &accounts).await;
        if (400..500).contains(&status) && after == before {
            refused += 1;
        } else {
            rec.violate(
                "C11",
                &format!("C11/excluded_account_served/{}/{}", world.access_mode, r.name),
                format!("access config '{}': {} {} for the excluded account answered {status} (state changed: {})", world.access_mode, r.method, r.path, after != before),
            );
        }
    }
    rec.stats.count_n("c11.excluded_requests", tried);
    format!("refused{refused}of{tried}")
}

//! Oracles and scheduler for the network world.

use crate::common::*;
use crate::device::*;
use crate::net::*;
use crate::netw::{NetDevice, NetWorld, N_SLOTS};
use crate::rng::Rng;
use futures::{pin_mut, StreamExt};
use serde_json::Value;
use sos_account::Account;
use sos_backend::BackendTarget;
use sos_core::{
    commit::{CommitProof, CommitTree, Comparison},
    decode,
    device::{DevicePublicKey, TrustedDevice},
    events::{DeviceEvent, EventLog},
    VaultFlags, VaultId,
};
use sos_login::DelegatedAccess;
use sos_protocol::SyncOptions;
use sos_reducers::FolderReducer;
use sos_remote_sync::AutoMerge;
use sos_sync::{StorageEventLogs, SyncStatus, SyncStorage};
use sos_vault::{SecretAccess, Vault};
use std::collections::{BTreeMap, BTreeSet};
use std::sync::atomic::Ordering::SeqCst;

/// (commit, time as rfc3339, sha256 of event bytes)
#[derive(Clone, Debug, PartialEq, Eq, PartialOrd, Ord, serde::Serialize, serde::Deserialize)]
pub struct RecT {
    pub commit: [u8; 32],
    pub time: String,
}

pub type LogSet = BTreeMap<String, Vec<RecT>>;

#[derive(Default, Clone)]
pub struct OwnCommits {
    pub logs: LogSet,
    pub rewritten: bool,
}

async fn read_log<L, T>(log: &L) -> Result<Vec<RecT>, String>
where
    L: EventLog<T>,
    T: Default + binary_stream::futures::Encodable + binary_stream::futures::Decodable + Send + Sync + 'static,
{
    let mut out = vec![];
    let stream = log.record_stream(false).await;
    pin_mut!(stream);
    while let Some(r) = stream.next().await {
        let r = r.map_err(|e| e.to_string())?;
        out.push(RecT {
            commit: r.commit().0,
            time: r.time().to_rfc3339().unwrap_or_default(),
        });
    }
    Ok(out)
}

/// Every event log of a replica through `StorageEventLogs`.
pub async fn storage_logs<S: StorageEventLogs>(s: &S) -> Result<LogSet, String> {
    let mut out = LogSet::new();
    {
        let l = s.identity_log().await.map_err(|e| e.to_string())?;
        let l = l.read().await;
        out.insert("identity".into(), read_log(&*l).await?);
    }
    {
        let l = s.account_log().await.map_err(|e| e.to_string())?;
        let l = l.read().await;
        out.insert("account".into(), read_log(&*l).await?);
    }
    {
        let l = s.device_log().await.map_err(|e| e.to_string())?;
        let l = l.read().await;
        out.insert("device".into(), read_log(&*l).await?);
    }
    {
        let l = s.file_log().await.map_err(|e| e.to_string())?;
        let l = l.read().await;
        out.insert("files".into(), read_log(&*l).await?);
    }
    let folders = s.folder_details().await.map_err(|e| e.to_string())?;
    for f in folders {
        let l = s.folder_log(f.id()).await.map_err(|e| e.to_string())?;
        let l = l.read().await;
        out.insert(format!("folder:{}", f.id()), read_log(&*l).await?);
    }
    Ok(out)
}

pub async fn device_logs(dev: &Device) -> Result<LogSet, String> {
    let a = dev.lock().await;
    storage_logs(&*a).await
}

pub async fn server_logs(world: &NetWorld) -> Result<LogSet, String> {
    let id = world.devices[0].dev.account_id;
    match world.server.account(&id).await {
        Some(s) => {
            let s = s.read().await;
            storage_logs(&*s).await
        }
        None => Err("server has no such account".into()),
    }
}

/// Folder ids for which the server's account log holds a DeleteFolder event:
/// their folder logs are removed as the accepted consequence of that event.
pub async fn server_deleted_folders(world: &NetWorld) -> BTreeSet<String> {
    let mut out = BTreeSet::new();
    let id = world.devices[0].dev.account_id;
    if let Some(s) = world.server.account(&id).await {
        let s = s.read().await;
        if let Ok(l) = s.account_log().await {
            let l = l.read().await;
            let stream = l.event_stream(false).await;
            pin_mut!(stream);
            while let Some(Ok((_, ev))) = stream.next().await {
                if let sos_core::events::AccountEvent::DeleteFolder(fid) = ev {
                    out.insert(format!("folder:{fid}"));
                }
            }
        }
    }
    out
}

pub async fn device_log_lens(dev: &Device) -> BTreeMap<String, usize> {
    device_logs(dev)
        .await
        .map(|l| l.into_iter().map(|(k, v)| (k, v.len())).collect())
        .unwrap_or_default()
}

/// After a local operation: everything appended beyond the previous length
/// of each log was committed by this device.
pub async fn record_own_commits(nd: &mut NetDevice, before: BTreeMap<String, usize>) {
    if let Ok(now) = device_logs(&nd.dev).await {
        for (k, v) in now {
            let n0 = before.get(&k).copied().unwrap_or(0);
            if v.len() > n0 {
                nd.own.logs.entry(k).or_default().extend_from_slice(&v[n0..]);
            } else if v.len() < n0 {
                nd.own.rewritten = true;
            }
        }
    }
}

/// log name -> (root, length)
pub fn status_map(s: &SyncStatus) -> BTreeMap<String, (String, usize)> {
    let mut m = BTreeMap::new();
    m.insert("identity".to_string(), (s.identity.1.root.to_string(), s.identity.1.length));
    m.insert("account".to_string(), (s.account.1.root.to_string(), s.account.1.length));
    m.insert("device".to_string(), (s.device.1.root.to_string(), s.device.1.length));
    if let Some(f) = &s.files {
        m.insert("files".to_string(), (f.1.root.to_string(), f.1.length));
    }
    for (id, c) in &s.folders {
        m.insert(format!("folder:{id}"), (c.1.root.to_string(), c.1.length));
    }
    m
}

pub async fn device_status(dev: &Device) -> Result<SyncStatus, String> {
    let a = dev.lock().await;
    a.sync_status().await.map_err(|e| e.to_string())
}

pub async fn server_status(world: &NetWorld) -> Result<SyncStatus, String> {
    let id = world.devices[0].dev.account_id;
    match world.server.account(&id).await {
        Some(s) => {
            let s = s.read().await;
            s.sync_status().await.map_err(|e| e.to_string())
        }
        None => Err("server has no such account".into()),
    }
}

/// Folders that are excluded from sync by design.
fn unsynced_folders(dev: &Device) -> BTreeSet<String> {
    dev.model
        .folders
        .iter()
        .filter(|(_, f)| {
            let fl = VaultFlags::from_bits_truncate(f.flags);
            fl.contains(VaultFlags::NO_SYNC) || fl.contains(VaultFlags::LOCAL)
        })
        .map(|(id, _)| format!("folder:{id}"))
        .collect()
}

fn status_diff(
    a: &BTreeMap<String, (String, usize)>,
    b: &BTreeMap<String, (String, usize)>,
    skip: &BTreeSet<String>,
) -> Vec<String> {
    let mut out = vec![];
    let keys: BTreeSet<&String> = a.keys().chain(b.keys()).collect();
    for k in keys {
        if skip.contains(k) {
            continue;
        }
        match (a.get(k), b.get(k)) {
            (Some(x), Some(y)) if x == y => {}
            (x, y) => out.push(format!(
                "{}: {} vs {}",
                log_kind(k),
                x.map(|v| format!("len {} root {}", v.1, &v.0[..8])).unwrap_or("absent".into()),
                y.map(|v| format!("len {} root {}", v.1, &v.0[..8])).unwrap_or("absent".into())
            )),
        }
    }
    out
}

pub fn log_kind(k: &str) -> &str {
    if k.starts_with("folder:") {
        "folder"
    } else {
        k
    }
}

/// Log names known to server and device (taken before a sync).
pub async fn known_logs(world: &NetWorld, di: usize) -> (BTreeSet<String>, BTreeSet<String>) {
    let s = server_status(world).await.map(|s| status_map(&s).keys().cloned().collect()).unwrap_or_default();
    let d = device_status(&world.devices[di].dev).await.map(|s| status_map(&s).keys().cloned().collect()).unwrap_or_default();
    (s, d)
}

/// C04 (second sentence): a sync that reports success leaves the device
/// equal to the server.
pub async fn check_success_means_equal(
    world: &mut NetWorld,
    di: usize,
    rec: &mut Recorder,
    before: &(BTreeSet<String>, BTreeSet<String>),
) {
    let ds = match device_status(&world.devices[di].dev).await {
        Ok(s) => status_map(&s),
        Err(_) => return,
    };
    let ss = match server_status(world).await {
        Ok(s) => status_map(&s),
        Err(_) => return,
    };
    let skip = unsynced_folders(&world.devices[di].dev);
    let d = status_diff(&ds, &ss, &skip);
    if d.is_empty() {
        return;
    }
    // root-cause classes that can be told apart mechanically
    let differing: Vec<String> = {
        let keys: BTreeSet<&String> = ds.keys().chain(ss.keys()).collect();
        keys.into_iter()
            .filter(|k| !skip.contains(*k) && ds.get(*k) != ss.get(*k))
            .cloned()
            .collect()
    };
    let dl = device_logs(&world.devices[di].dev).await.unwrap_or_default();
    let sl = server_logs(world).await.unwrap_or_default();
    let mut classes: BTreeSet<String> = BTreeSet::new();
    for k in &differing {
        let new_folder = k.starts_with("folder:") && (!before.0.contains(k) || !before.1.contains(k));
        let has_dups = |l: &LogSet| {
            l.get(k)
                .map(|v| {
                    let mut seen = BTreeSet::new();
                    v.iter().any(|r| !seen.insert(r.commit))
                })
                .unwrap_or(false)
        };
        if new_folder {
            classes.insert("folder_unknown_to_one_side_before_this_sync".into());
        } else if has_dups(&dl) || has_dups(&sl) {
            classes.insert(format!("{}_log_holds_identical_events", log_kind(k)));
        } else {
            classes.insert(log_kind(k).to_string());
        }
    }
    let mut rw = String::new();
    {
        // did this sync go through the auto-merge path (scan / patch requests)?
        let l = world.net.0.log.lock().unwrap();
        let mut merged = false;
        for d in l.iter().rev() {
            if d.device != di || d.kind == "exists" {
                if d.device == di {
                    break;
                }
                continue;
            }
            if d.kind == "scan" || d.kind == "patch" {
                merged = true;
            }
        }
        if merged {
            rw.push_str("/sync_auto_merged");
        }
    }
    if world.devices.iter().any(|d| d.own.rewritten) {
        rw.push_str("/after_history_rewrite");
    }
    for c in classes {
        rec.violate(
            "C04",
            &format!("C04/success_but_differs/{c}{rw}"),
            format!("sync on d{di} returned success (no conflict) yet device vs server: {}", d.join("; ")),
        );
    }
}

// ------------------------------------------------------------ replay oracle

async fn decrypt_vault(vault: Vault, key: &sos_core::crypto::AccessKey) -> Result<FolderM, String> {
    let name = vault.summary().name().to_string();
    let flags = vault.summary().flags().bits();
    let ids: Vec<_> = vault.keys().copied().collect();
    let mut ap = sos_backend::AccessPoint::from_vault(vault);
    ap.unlock(key).await.map_err(|e| format!("unlock: {e}"))?;
    let meta = ap.vault_meta().await.map_err(|e| format!("vault_meta: {e}"))?;
    let mut secrets = BTreeMap::new();
    for id in ids {
        match ap.read_secret(&id).await {
            Ok(Some((m, s, _))) => {
                secrets.insert(id, secret_m(&m, &s));
            }
            Ok(None) => return Err(format!("secret {id} listed but not readable")),
            Err(e) => return Err(format!("read_secret {id}: {e}")),
        }
    }
    Ok(FolderM { name, flags, description: meta.description().to_string(), secrets })
}

fn folder_diff(a: &FolderM, b: &FolderM) -> Option<String> {
    let mut x = Snap::new();
    let mut y = Snap::new();
    let id = VaultId::nil();
    x.insert(id, a.clone());
    y.insert(id, b.clone());
    diff_snap(&x, &y)
}

/// C02: for every folder of the device: replay(log) == served == mirror.
pub async fn check_replay(dev: &mut Device, rec: &mut Recorder, when: &str, per_commit: bool) {
    check_replay_as(dev, rec, when, per_commit, "C02").await
}

/// The same three-way oracle, reported under another property id (C12/C13
/// re-use it as a sub-check).
pub async fn check_replay_as(dev: &mut Device, rec: &mut Recorder, when: &str, per_commit: bool, prop: &str) {
    let served = match dev.snapshot().await {
        Ok(s) => s,
        Err(e) => {
            rec.violate(
                prop,
                &format!("{prop}/{}/served_snapshot_failed", dev.kind.name()),
                format!("{} after {when}: {e}", dev.name),
            );
            return;
        }
    };
    let backend = dev.kind.name();
    let a = dev.lock().await;
    let target = a.backend_target().await;
    // the folder name is recorded twice (RenameFolder in the account log,
    // SetVaultName in the folder log); remember what the account log says
    let mut account_names: BTreeMap<VaultId, String> = BTreeMap::new();
    if let Ok(l) = a.account_log().await {
        let l = l.read().await;
        let stream = l.event_stream(false).await;
        pin_mut!(stream);
        while let Some(Ok((_, ev))) = stream.next().await {
            if let sos_core::events::AccountEvent::RenameFolder(id, name) = ev {
                account_names.insert(id, name);
            }
        }
    }
    for (fid, fserved) in &served {
        let key = match a.find_folder_password(fid).await {
            Ok(Some(k)) => k,
            _ => continue,
        };
        // replay of the persisted log
        let log = match a.folder_log(fid).await {
            Ok(l) => l,
            Err(_) => continue,
        };
        let log = log.read().await;
        // byte-identical events in this log (events are addressed by the
        // hash of their bytes): a separate root-cause class
        let (dup_tag, head_unique) = {
            let leaves = log.tree().leaves().unwrap_or_default();
            let mut seen = BTreeSet::new();
            let dups = leaves.iter().any(|l| !seen.insert(*l));
            let head_unique = leaves
                .last()
                .map(|h| leaves.iter().filter(|l| *l == h).count() == 1)
                .unwrap_or(true);
            (if dups { "/log_holds_identical_events" } else { "" }, head_unique)
        };
        let replay = async {
            let v = FolderReducer::new()
                .reduce(&*log)
                .await
                .map_err(|e| format!("reduce: {e}"))?
                .build(true)
                .await
                .map_err(|e| format!("build: {e}"))?;
            decrypt_vault(v, &key).await
        }
        .await;
        rec.stats.count("c02.folders_checked");
        match replay {
            Ok(r) => {
                if let Some(d) = folder_diff(&r, fserved) {
                    let mut class = classify_folder_diff(&r, fserved);
                    if class == "name" && account_names.get(fid) == Some(&fserved.name) {
                        class = "name/account_log_and_folder_log_order_renames_differently".into();
                    }
                    rec.violate(
                        prop,
                        &format!("{prop}/{backend}/replay_vs_served/{class}{dup_tag}"),
                        format!("{} after {when}: folder {fid}: replay(log) expected-side vs served got-side: {d}", dev.name),
                    );
                }
            }
            Err(e) => rec.violate(
                prop,
                &format!("{prop}/{backend}/replay_failed"),
                format!("{} after {when}: folder {fid}: {e}", dev.name),
            ),
        }
        // the mirror (vault file / rows)
        let mirror: Result<Vault, String> = match &target {
            BackendTarget::FileSystem(paths) => {
                let p = paths.with_account_id(a.account_id()).vault_path(fid);
                match std::fs::read(&p) {
                    Ok(b) => decode::<Vault>(&b).await.map_err(|e| format!("decode vault file: {e}")),
                    Err(e) => Err(format!("read {}: {e}", p.display())),
                }
            }
            BackendTarget::Database(_, client) => {
                sos_database::entity::FolderEntity::compute_folder_vault(client, fid)
                    .await
                    .map_err(|e| format!("compute_folder_vault: {e}"))
            }
        };
        match mirror {
            Ok(v) => match decrypt_vault(v, &key).await {
                Ok(m) => {
                    if let Some(d) = folder_diff(&m, fserved) {
                        let mut class = classify_folder_diff(&m, fserved);
                        if class == "name" && account_names.get(fid) == Some(&fserved.name) {
                            class = "name/account_log_and_folder_log_order_renames_differently".into();
                        }
                        rec.violate(
                            prop,
                            &format!("{prop}/{backend}/mirror_vs_served/{class}{dup_tag}"),
                            format!("{} after {when}: folder {fid}: persisted vault expected-side vs served got-side: {d}", dev.name),
                        );
                    }
                }
                Err(e) => rec.violate(
                    prop,
                    &format!("{prop}/{backend}/mirror_unreadable"),
                    format!("{} after {when}: folder {fid}: {e}", dev.name),
                ),
            },
            Err(e) => rec.violate(
                prop,
                &format!("{prop}/{backend}/mirror_unreadable"),
                format!("{} after {when}: folder {fid}: {e}", dev.name),
            ),
        }
        // replay up to the last commit must equal the full replay; earlier
        // commits are compared against history by the caller when sampled
        // (replay-until-commit stops at the FIRST record with that hash, so
        // the check is only meaningful when the head's hash is unique)
        if per_commit && head_unique {
            if let Some(last) = log.tree().last_commit() {
                let r2 = async {
                    let v = FolderReducer::new_until_commit(last)
                        .reduce(&*log)
                        .await
                        .map_err(|e| format!("reduce: {e}"))?
                        .build(true)
                        .await
                        .map_err(|e| format!("build: {e}"))?;
                    decrypt_vault(v, &key).await
                }
                .await;
                if let Ok(r2) = r2 {
                    if let Some(d) = folder_diff(&r2, fserved) {
                        let mut class = classify_folder_diff(&r2, fserved);
                        if class == "name" && account_names.get(fid) == Some(&fserved.name) {
                            class = "name/account_log_and_folder_log_order_renames_differently".into();
                        }
                        rec.violate(
                            prop,
                            &format!("{prop}/{backend}/replay_until_head_vs_served/{class}"),
                            format!("{} after {when}: folder {fid}: {d}", dev.name),
                        );
                    }
                }
            }
        }
    }
}

fn classify_folder_diff(a: &FolderM, b: &FolderM) -> String {
    let mut c = vec![];
    if a.name != b.name {
        c.push("name");
    }
    if a.flags != b.flags {
        c.push("flags");
    }
    if a.description != b.description {
        c.push("description");
    }
    let ka: BTreeSet<_> = a.secrets.keys().collect();
    let kb: BTreeSet<_> = b.secrets.keys().collect();
    if ka != kb {
        c.push("secret_ids");
    } else if a.secrets != b.secrets {
        c.push("secret_content");
    }
    c.join("+")
}

// ------------------------------------------------------------ search oracle

/// C20: the incrementally maintained index equals a recount of what the
/// folders contain.
pub async fn check_search(dev: &mut Device, rec: &mut Recorder, when: &str) {
    let served = match dev.snapshot().await {
        Ok(s) => s,
        Err(_) => return,
    };
    let backend = dev.kind.name();
    let a = dev.lock().await;
    let idx = match a.search_index().await {
        Ok(i) => i,
        Err(_) => return,
    };
    let idx = idx.read().await;
    rec.stats.count("c20.checks");
    // expected documents: one per live secret
    let mut expect: BTreeMap<(VaultId, sos_core::SecretId), (String, Vec<String>, String, bool)> = BTreeMap::new();
    for (fid, f) in &served {
        for (sid, s) in &f.secrets {
            let label = s.meta.get("label").and_then(|v| v.as_str()).unwrap_or("").to_string();
            let mut tags: Vec<String> = s
                .meta
                .get("tags")
                .and_then(|v| v.as_array())
                .map(|a| a.iter().filter_map(|x| x.as_str().map(|s| s.to_string())).collect())
                .unwrap_or_default();
            tags.sort();
            let kind = s.meta.get("kind").map(|v| v.to_string()).unwrap_or_default();
            let fav = s.meta.get("favorite").and_then(|v| v.as_bool()).unwrap_or(false);
            expect.insert((*fid, *sid), (label, tags, kind, fav));
        }
    }
    let mut got: BTreeMap<(VaultId, sos_core::SecretId), (String, Vec<String>, String, bool)> = BTreeMap::new();
    for d in idx.values() {
        let mj = serde_json::to_value(d.meta()).unwrap_or_default();
        let label = mj.get("label").and_then(|v| v.as_str()).unwrap_or("").to_string();
        let mut tags: Vec<String> = mj
            .get("tags")
            .and_then(|v| v.as_array())
            .map(|a| a.iter().filter_map(|x| x.as_str().map(|s| s.to_string())).collect())
            .unwrap_or_default();
        tags.sort();
        let kind = mj.get("kind").map(|v| v.to_string()).unwrap_or_default();
        let fav = mj.get("favorite").and_then(|v| v.as_bool()).unwrap_or(false);
        if got.insert((*d.folder_id(), *d.id()), (label, tags, kind, fav)).is_some() {
            rec.violate(
                "C20",
                &format!("C20/{backend}/duplicate_document"),
                format!("{} after {when}: two documents for {} / {}", dev.name, d.folder_id(), d.id()),
            );
        }
    }
    if std::env::var("SOSSIM_TRACE").is_ok() {
        eprintln!("  check_search {} after {when}: expect {} docs, index holds {}", dev.name, expect.len(), got.len());
    }
    if expect != got {
        let missing: Vec<_> = expect.keys().filter(|k| !got.contains_key(k)).collect();
        let stale: Vec<_> = got.keys().filter(|k| !expect.contains_key(k)).collect();
        let changed: Vec<_> = expect
            .iter()
            .filter(|(k, v)| got.get(k).map(|g| g != *v).unwrap_or(false))
            .map(|(k, v)| format!("{:?}: expected {:?} got {:?}", k.1, v, got.get(k)))
            .collect();
        let class = if !stale.is_empty() {
            "stale_document"
        } else if !missing.is_empty() {
            "missing_document"
        } else {
            "document_content"
        };
        rec.violate(
            "C20",
            &format!("C20/{backend}/{class}"),
            format!(
                "{} after {when}: missing {:?}; stale {:?}; changed {}",
                dev.name,
                missing,
                stale,
                changed.join("; ")
            ),
        );
    }
    // counters == recount
    let count = idx.statistics().count();
    let mut vaults: BTreeMap<VaultId, usize> = BTreeMap::new();
    let mut tags: BTreeMap<String, usize> = BTreeMap::new();
    let mut favs = 0usize;
    for ((fid, _), (_, t, _, fav)) in &expect {
        *vaults.entry(*fid).or_default() += 1;
        for x in t {
            *tags.entry(x.clone()).or_default() += 1;
        }
        if *fav {
            favs += 1;
        }
    }
    let gv: BTreeMap<VaultId, usize> =
        count.vaults().iter().filter(|(_, n)| **n > 0).map(|(k, v)| (*k, *v)).collect();
    let gt: BTreeMap<String, usize> =
        count.tags().iter().filter(|(_, n)| **n > 0).map(|(k, v)| (k.clone(), *v)).collect();
    if gv != vaults {
        rec.violate(
            "C20",
            &format!("C20/{backend}/folder_counter"),
            format!("{} after {when}: per-folder counters {:?} recount {:?}", dev.name, gv, vaults),
        );
    }
    if gt != tags {
        rec.violate(
            "C20",
            &format!("C20/{backend}/tag_counter"),
            format!("{} after {when}: tag counters {:?} recount {:?}", dev.name, gt, tags),
        );
    }
    // favourites are not counted for archived documents
    let archive = dev.model.fslots.get(&1).copied();
    let favs_non_archived = expect
        .iter()
        .filter(|((f, _), v)| v.3 && Some(*f) != archive)
        .count();
    let _ = favs_non_archived;
    if count.favorites() != favs {
        rec.violate(
            "C20",
            &format!("C20/{backend}/favorites_counter"),
            format!("{} after {when}: favourites counter {} recount {} (non-archived {})", dev.name, count.favorites(), favs, favs_non_archived),
        );
    }
    let total_kinds: usize = count.kinds().values().sum();
    // kind counters skip the archive folder by design
    let non_archived = expect.keys().filter(|(f, _)| Some(*f) != archive).count();
    if total_kinds != non_archived {
        rec.violate(
            "C20",
            &format!("C20/{backend}/kind_counter"),
            format!("{} after {when}: kind counters sum {} but {} live secrets outside the archive", dev.name, total_kinds, non_archived),
        );
    }
    // queries by label return exactly the live matches
    for label in LABELS {
        let res = idx.query_map(label, |_| true);
        let got_ids: BTreeSet<_> = res.iter().map(|d| (*d.folder_id(), *d.id())).collect();
        let exp_ids: BTreeSet<_> = expect
            .iter()
            .filter(|(_, v)| v.0 == label)
            .map(|(k, _)| *k)
            .collect();
        // query_map is an n-gram search; require: no deleted/stale hit and
        // every exact-label document is found
        for g in &got_ids {
            if !expect.contains_key(g) {
                rec.violate(
                    "C20",
                    &format!("C20/{backend}/query_returns_stale"),
                    format!("{} after {when}: query {label:?} returned {:?} which is not a live secret", dev.name, g),
                );
            }
        }
        for e in &exp_ids {
            if !got_ids.contains(e) {
                rec.violate(
                    "C20",
                    &format!("C20/{backend}/query_misses_live"),
                    format!("{} after {when}: query {label:?} misses live secret {:?}", dev.name, e),
                );
            }
        }
    }
}

// ------------------------------------------------------------- compare (C08)

fn tree_from(leaves: &[RecT]) -> CommitTree {
    let mut t = CommitTree::new();
    let mut l: Vec<[u8; 32]> = leaves.iter().map(|r| r.commit).collect();
    t.append(&mut l);
    t.commit();
    t
}

/// C08: `compare` answers vs the prefix relation on the raw sequences, for
/// every ordered pair of replicas and every log.
pub fn check_compare_pair(name_a: &str, a: &LogSet, name_b: &str, b: &LogSet, rec: &mut Recorder) {
    for (k, la) in a {
        let Some(lb) = b.get(k) else { continue };
        if la.is_empty() || lb.is_empty() {
            continue;
        }
        let ta = tree_from(la);
        let tb = tree_from(lb);
        let hb: CommitProof = match tb.head() {
            Ok(h) => h,
            Err(_) => continue,
        };
        let ca: Vec<[u8; 32]> = la.iter().map(|r| r.commit).collect();
        let cb: Vec<[u8; 32]> = lb.iter().map(|r| r.commit).collect();
        let equal = ca == cb;
        let b_prefix_of_a = cb.len() < ca.len() && ca[..cb.len()] == cb[..];
        rec.stats.count("c08.pairs");
        rec.case(&format!("{}|{}", hex_seq(&ca), hex_seq(&cb)));
        if !equal && !b_prefix_of_a {
            rec.stats.probe("c08.diverged_pair");
            if ca.len() >= cb.len() && ca[cb.len() - 1] == cb[cb.len() - 1] {
                rec.stats.probe("c08.same_leaf_at_head_index_over_different_prefix");
            }
        }
        match ta.compare(&hb) {
            Ok(Comparison::Equal) => {
                if !equal {
                    rec.violate(
                        "C08",
                        "C08/compare/equal_but_sequences_differ",
                        format!("{k}: {name_a} [{}] vs head of {name_b} [{}]", hex_seq(&ca), hex_seq(&cb)),
                    );
                }
            }
            Ok(Comparison::Contains(_)) => {
                if !b_prefix_of_a {
                    rec.violate(
                        "C08",
                        "C08/compare/contains_but_not_a_prefix",
                        format!("{k}: {name_a} [{}] answered Contains for the head of {name_b} [{}], which is not a prefix of it", hex_seq(&ca), hex_seq(&cb)),
                    );
                }
            }
            Ok(Comparison::Unknown) => {
                if equal {
                    rec.violate(
                        "C08",
                        "C08/compare/unknown_but_equal",
                        format!("{k}: {name_a} vs {name_b} both [{}]", hex_seq(&ca)),
                    );
                } else if b_prefix_of_a {
                    rec.violate(
                        "C08",
                        "C08/compare/unknown_but_prefix",
                        format!("{k}: {name_a} [{}] vs head of {name_b} [{}] (a proper prefix)", hex_seq(&ca), hex_seq(&cb)),
                    );
                }
            }
            Err(e) => {
                rec.violate("C08", "C08/compare/error", format!("{k}: {e}"));
            }
        }
        // single-leaf proofs taken from B verify against A wherever the
        // proven position agrees (different lengths included)
        let n = cb.len().min(ca.len());
        for i in 0..n {
            if let Ok(p) = tb.proof(&[i]) {
                let (ok, _) = p.verify_leaves(&ca);
                let agree = ca[i] == cb[i];
                if agree && !ok {
                    if ca.len() != cb.len() {
                        rec.stats.probe("c08.proof_other_length");
                    }
                    rec.violate(
                        "C08",
                        if ca.len() != cb.len() {
                            "C08/verify_leaves/agreeing_position_rejected_other_length"
                        } else {
                            "C08/verify_leaves/agreeing_position_rejected"
                        },
                        format!("{k}: proof of leaf {i} from {name_b} (len {}) does not verify against {name_a} (len {}) although both hold {}", cb.len(), ca.len(), &hex::encode(cb[i])[..6]),
                    );
                    break;
                }
                if !agree && ok {
                    rec.violate(
                        "C08",
                        "C08/verify_leaves/differing_position_accepted",
                        format!("{k}: proof of leaf {i} from {name_b} verifies against {name_a} although the leaves differ"),
                    );
                    break;
                }
            }
        }
    }
}

fn hex_seq(c: &[[u8; 32]]) -> String {
    c.iter().map(|x| hex::encode(&x[..2])).collect::<Vec<_>>().join(",")
}

// ------------------------------------------------------------ per-step hook

pub async fn per_step_checks(world: &mut NetWorld, rec: &mut Recorder, prop: &str, opn: &str) {
    let n_before = rec.violations.len();
    per_step_checks_inner(world, rec, prop, opn).await;
    // uncoordinated history rewrites on several devices are a recorded root
    // cause (see known_findings.json); keep its consequences apart from
    // everything else
    if world.devices.iter().any(|d| d.own.rewritten) {
        for v in rec.violations.iter_mut().skip(n_before) {
            if matches!(v.property.as_str(), "C02" | "C20") && !v.signature.ends_with("/after_history_rewrite") {
                v.signature.push_str("/after_history_rewrite");
            }
        }
    }
}

async fn per_step_checks_inner(world: &mut NetWorld, rec: &mut Recorder, prop: &str, opn: &str) {
    let do_c02 = matches!(prop, "C02");
    let do_c20 = matches!(prop, "C20");
    let do_c08 = matches!(prop, "C08");
    for i in 0..world.devices.len() {
        if world.devices[i].dev.account.is_none() {
            continue;
        }
        if do_c02 {
            check_replay(&mut world.devices[i].dev, rec, opn, prop == "C02").await;
        }
        if do_c20 {
            check_search(&mut world.devices[i].dev, rec, opn).await;
        }
    }
    if do_c08 && matches!(opn, "sync" | "csync" | "syncall" | "quiesce") {
        let mut sets: Vec<(String, LogSet)> = vec![];
        for d in &world.devices {
            if let Ok(l) = device_logs(&d.dev).await {
                sets.push((d.dev.name.clone(), l));
            }
        }
        if let Ok(l) = server_logs(world).await {
            sets.push(("server".into(), l));
        }
        for i in 0..sets.len() {
            for j in 0..sets.len() {
                if i != j {
                    check_compare_pair(&sets[i].0, &sets[i].1, &sets[j].0, &sets[j].1, rec);
                }
            }
        }
    }
}

// --------------------------------------------------------- concurrent syncs

/// C09: every online device calls `sync()` at once; the seeded scheduler
/// releases one parked request at a time.
pub async fn concurrent_sync(world: &mut NetWorld, s: &Value, rec: &mut Recorder) -> String {
    let mut rng = Rng::new(ju64(s, "sched")).fork("sched");
    let pct = jbool(s, "pct");
    let mut tasks = vec![];
    for i in 0..world.devices.len() {
        if !world.devices[i].online.load(SeqCst) {
            continue;
        }
        if world.ensure_bridge(i).await.is_err() {
            continue;
        }
        let b = world.devices[i].bridge.clone().unwrap();
        tasks.push((i, Some(tokio::spawn(async move { b.execute_sync(&SyncOptions::default()).await }))));
    }
    if tasks.len() < 2 {
        for (_, t) in tasks.iter_mut() {
            if let Some(t) = t.take() {
                t.abort();
            }
        }
        // nothing concurrent to do; run them sequentially instead
        return "skip".into();
    }
    world.net.0.park.store(true, SeqCst);
    let rewritten = world.devices.iter().any(|d| d.own.rewritten);
    let mut server_before = server_logs(world).await.unwrap_or_default();
    let mut deliveries = 0u64;
    let mut seqsig = String::new();
    let mut results: BTreeMap<usize, String> = BTreeMap::new();
    // PCT-like mode: a fixed priority order with a few random change points
    let mut prio: Vec<usize> = (0..world.devices.len()).collect();
    for i in (1..prio.len()).rev() {
        let j = rng.below(i as u64 + 1) as usize;
        prio.swap(i, j);
    }
    let budget = 64 * tasks.len() as u64;
    let verdict;
    loop {
        // wait for quiescence: every live task is parked on the transport
        let mut spins = 0u32;
        loop {
            for (i, t) in tasks.iter_mut() {
                if let Some(h) = t {
                    if h.is_finished() {
                        let h = t.take().unwrap();
                        let c = match h.await {
                            Ok(Ok(_)) => "ok".to_string(),
                            Ok(Err(e)) => crate::netw_class(&e),
                            Err(e) => format!("panic:{e}"),
                        };
                        results.insert(*i, c);
                    }
                }
            }
            let live = tasks.iter().filter(|(_, t)| t.is_some()).count();
            let parked = world.net.parked_len();
            if live == 0 || parked == live {
                break;
            }
            spins += 1;
            if spins > 200_000 {
                break;
            }
            if spins % 8 == 0 {
                tokio::time::sleep(std::time::Duration::from_micros(200)).await;
            } else {
                tokio::task::yield_now().await;
            }
        }
        let live = tasks.iter().filter(|(_, t)| t.is_some()).count();
        if live == 0 {
            verdict = "done";
            break;
        }
        let parked = world.net.parked_kinds();
        if parked.len() != live {
            verdict = "stuck";
            break;
        }
        if deliveries >= budget {
            verdict = "budget";
            break;
        }
        let idx = if pct {
            if rng.chance(1, 6) {
                let a = rng.below(prio.len() as u64) as usize;
                let b = rng.below(prio.len() as u64) as usize;
                prio.swap(a, b);
            }
            let mut best = 0;
            for (k, (d, _)) in parked.iter().enumerate() {
                let pk = prio.iter().position(|x| x == d).unwrap_or(0);
                let pb = prio.iter().position(|x| *x == parked[best].0).unwrap_or(0);
                if pk < pb {
                    best = k;
                }
            }
            best
        } else {
            rng.below(parked.len() as u64) as usize
        };
        let (d, kind) = parked[idx].clone();
        seqsig.push_str(&format!("{d}{},", &kind[..1.min(kind.len())]));
        world.net.release(idx).await;
        deliveries += 1;
        // the server's logs only ever change by whole accepted patches and no
        // accepted event is dropped
        if let Ok(now) = server_logs(world).await {
            if !rewritten {
                let deleted = server_deleted_folders(world).await;
                for (k, before) in &server_before {
                    if !now.contains_key(k) && deleted.contains(k) {
                        // the account log now holds DeleteFolder for it: the
                        // folder log went away with an accepted event
                        rec.stats.probe("c09.folder_log_removed_by_accepted_delete");
                        continue;
                    }
                    let after = now.get(k).cloned().unwrap_or_default();
                    let mut need: BTreeMap<[u8; 32], i64> = BTreeMap::new();
                    for r in before {
                        *need.entry(r.commit).or_default() += 1;
                    }
                    for r in &after {
                        *need.entry(r.commit).or_default() -= 1;
                    }
                    if let Some((c, _)) = need.iter().find(|(_, n)| **n > 0) {
                        rec.violate(
                            "C09",
                            &format!("C09/server_dropped_accepted_event/{}", log_kind(k)),
                            format!("after delivery #{deliveries} ({kind} from d{d}) the server log {k} lost event {} (had {} records, now {})", &hex::encode(c)[..8], before.len(), after.len()),
                        );
                    }
                }
            }
            server_before = now;
        }
    }
    world.net.0.park.store(false, SeqCst);
    if verdict != "done" {
        for (_, t) in tasks.iter_mut() {
            if let Some(t) = t.take() {
                t.abort();
            }
        }
        // drop any parked requests
        world.net.0.parked.lock().unwrap().clear();
        rec.violate(
            "C09",
            &format!("C09/sync_did_not_terminate/{verdict}"),
            format!("after {deliveries} deliveries some sync call had not ended ({verdict}); delivered: {seqsig}"),
        );
    }
    rec.stats.count_n("c09.deliveries", deliveries);
    rec.stats.count("c09.concurrent_rounds");
    rec.case(&format!("sched:{seqsig}"));
    for (i, c) in &results {
        if c.starts_with("panic") {
            rec.violate(
                "C09",
                "C09/sync_panicked",
                format!("sync task of d{i} panicked: {c}"),
            );
        }
        if c == "conflict" || c == "hard_conflict" {
            rec.stats.probe("c09.explicit_conflict");
        }
    }
    for i in 0..world.devices.len() {
        let _ = world.devices[i].dev.refresh_from_served(N_SLOTS).await;
    }
    let mut cs: Vec<String> = results.values().cloned().collect();
    cs.sort();
    format!("{}:{}", if verdict == "done" { "done" } else { verdict }, cs.join("/"))
}

// ----------------------------------------------------------------- quiescence

pub async fn quiesce_and_check(world: &mut NetWorld, s: &Value, rec: &mut Recorder, prop: &str) -> String {
    for d in world.devices.iter() {
        d.online.store(true, SeqCst);
    }
    let n = world.devices.len();
    let rounds = 2 * n + 2;
    let mut order: Vec<usize> = (0..n).collect();
    let mut rng = Rng::new(ju64(s, "order")).fork("quiesce");
    // C08: what the ancestor scan answers on the diverged state, vs truth
    if matches!(prop, "C08") {
        check_scan_vs_truth(world, rec).await;
    }
    let mut converged_at = None;
    let mut classes = vec![];
    for round in 0..rounds {
        for i in (1..order.len()).rev() {
            let j = rng.below(i as u64 + 1) as usize;
            order.swap(i, j);
        }
        for &i in &order {
            let before = known_logs(world, i).await;
            let c = world.sync(i, rec).await;
            if c == "ok" {
                check_success_means_equal(world, i, rec, &before).await;
            }
            classes.push(format!("d{i}:{c}"));
        }
        if converged(world).await.is_none() {
            converged_at = Some(round + 1);
            break;
        }
    }
    rec.stats.count_n("quiesce.rounds", converged_at.unwrap_or(rounds) as u64);
    match converged_at {
        Some(r) => {
            rec.stats.probe(&format!("converged_in_{r}"));
        }
        None => {
            let why = converged(world).await.unwrap_or_default();
            // one violation per log kind that failed to converge; the class
            // tells a liveness problem (the device's syncs keep failing, and
            // how) from a safety problem (syncs succeed, replicas differ)
            let mut by_kind: BTreeMap<String, Vec<String>> = BTreeMap::new();
            for w in &why {
                // "<dev> vs server: <kind>: ..."  |  "d0 vs dN: content: ..."
                let kind = w.split(": ").nth(1).unwrap_or("other").to_string();
                by_kind.entry(kind).or_default().push(w.clone());
            }
            let status_kinds: Vec<String> =
                by_kind.keys().filter(|k| k.as_str() != "content").cloned().collect();
            // logs (by kind) in which some replica holds byte-identical events:
            // events are addressed by the hash of their bytes, so these are a
            // distinct root-cause class
            let mut dup_kinds: BTreeSet<String> = BTreeSet::new();
            let mut reordered_kinds: BTreeSet<String> = BTreeSet::new();
            let mut same_index_kinds: BTreeSet<String> = BTreeSet::new();
            {
                let mut all: Vec<LogSet> = vec![];
                if let Ok(l) = server_logs(world).await {
                    all.push(l);
                }
                for d in &world.devices {
                    if let Ok(l) = device_logs(&d.dev).await {
                        all.push(l);
                    }
                }
                for ls in &all {
                    for (k, v) in ls {
                        let mut seen = BTreeSet::new();
                        if v.iter().any(|r| !seen.insert(r.commit)) {
                            dup_kinds.insert(log_kind(k).to_string());
                        }
                    }
                }
                // two replicas diverge and later hold the same event at the same index
                for x in 0..all.len() {
                    for y in (x + 1)..all.len() {
                        for (k, a) in &all[x] {
                            if let Some(b) = all[y].get(k) {
                                let lcp = a.iter().zip(b.iter()).take_while(|(p, q)| p.commit == q.commit).count();
                                let n = a.len().min(b.len());
                                if lcp < n && (lcp..n).any(|i| a[i].commit == b[i].commit) {
                                    same_index_kinds.insert(log_kind(k).to_string());
                                }
                            }
                        }
                    }
                }
                // same multiset of events on two replicas, different order
                if let Some(first) = all.first() {
                    for (k, v) in first {
                        for other in all.iter().skip(1) {
                            if let Some(o) = other.get(k) {
                                if o != v {
                                    let mut a: Vec<_> = v.iter().map(|r| r.commit).collect();
                                    let mut b: Vec<_> = o.iter().map(|r| r.commit).collect();
                                    a.sort();
                                    b.sort();
                                    if a == b {
                                        reordered_kinds.insert(log_kind(k).to_string());
                                    }
                                }
                            }
                        }
                    }
                }
            }
            for (kind, items) in &by_kind {
                if kind == "content" && !status_kinds.is_empty() {
                    continue; // explained by the log that did not converge
                }
                let devs: BTreeSet<usize> = items
                    .iter()
                    .filter_map(|w| w.strip_prefix('d').and_then(|x| x[..1].parse().ok()))
                    .collect();
                let _ = devs;
                // any device whose syncs keep failing explains the kinds that
                // cannot converge through it
                let failing: Vec<String> = (0..n)
                    .filter(|i| !world.devices[*i].last_sync_ok)
                    .map(|i| world.devices[i].last_err.clone())
                    .collect();
                let mut class = match failing.first() {
                    Some(e) => format!("sync_fails:{e}"),
                    None => "despite_successful_syncs".to_string(),
                };
                let _ = (&dup_kinds, &reordered_kinds, &same_index_kinds);
                let rc = root_cause_evidence(world).await;
                let mut tag = if kind == "content" { rc.tag_any() } else { rc.tag(kind) };
                if kind == "folder" && tag.is_empty() && by_kind.contains_key("account") {
                    // a folder that is absent (or behind) on a replica whose
                    // account log has not converged either: the folder follows
                    // the account log, so does its root cause
                    tag = rc.tag("account");
                }
                class.push_str(tag);
                if kind == "folder" {
                    let mut never = vec![];
                    for d in &world.devices {
                        never.extend(folders_recorded_but_not_imported(&d.dev).await);
                    }
                    if !never.is_empty() {
                        class.push_str("/folder_in_account_log_never_imported");
                    }
                }
                if world.devices.iter().any(|d| d.own.rewritten) {
                    class.push_str("/after_history_rewrite");
                }
                // the actual sequences of the logs of this kind, per replica
                let mut seqs = String::new();
                {
                    let mut all: Vec<(String, LogSet)> = vec![];
                    if let Ok(l) = server_logs(world).await {
                        all.push(("server".into(), l));
                    }
                    for d in &world.devices {
                        if let Ok(l) = device_logs(&d.dev).await {
                            all.push((d.dev.name.clone(), l));
                        }
                    }
                    let keys: BTreeSet<String> = all
                        .iter()
                        .flat_map(|(_, l)| l.keys().cloned())
                        .filter(|k| log_kind(k) == kind)
                        .collect();
                    for k in keys {
                        let vs: Vec<Option<&Vec<RecT>>> = all.iter().map(|(_, l)| l.get(&k)).collect();
                        if vs.windows(2).all(|w| w[0] == w[1]) {
                            continue;
                        }
                        for (name, l) in &all {
                            let txt = l
                                .get(&k)
                                .map(|v| v.iter().map(|r| format!("{}@{}", &hex::encode(r.commit)[..4], &r.time[14..r.time.len().min(27)])).collect::<Vec<_>>().join(" "))
                                .unwrap_or("absent".into());
                            seqs.push_str(&format!("\n      {name} {}: {txt}", &k[..k.len().min(14)]));
                        }
                    }
                }
                rec.violate(
                    "C04",
                    &format!("C04/not_converged/{kind}/{class}"),
                    format!("after {rounds} rounds in which every device synced once: {}; sync results: {}{seqs}", items.join("; "), classes.join(" ")),
                );
            }
        }
    }
    // C05: the converged (or final) logs against the union of committed events
    if matches!(prop, "C05") {
        check_union(world, rec, converged_at.is_some()).await;
    }
    format!("{}", converged_at.map(|r| format!("converged@{r}")).unwrap_or("not_converged".into()))
}

/// None when every device equals the server (status per log) and all
/// devices serve the same folders; otherwise the list of differences.
pub async fn converged(world: &mut NetWorld) -> Option<Vec<String>> {
    let ss = match server_status(world).await {
        Ok(s) => status_map(&s),
        Err(e) => return Some(vec![format!("server: status: {e}")]),
    };
    let mut out = vec![];
    let mut snaps = vec![];
    for i in 0..world.devices.len() {
        let d = &world.devices[i].dev;
        match device_status(d).await {
            Ok(s) => {
                let skip = unsynced_folders(d);
                for x in status_diff(&status_map(&s), &ss, &skip) {
                    out.push(format!("{} vs server: {x}", d.name));
                }
            }
            Err(e) => out.push(format!("{}: status: {e}", d.name)),
        }
        match world.devices[i].dev.snapshot().await {
            Ok(mut s) => {
                let skip = unsynced_folders(&world.devices[i].dev);
                s.retain(|id, _| !skip.contains(&format!("folder:{id}")));
                snaps.push(s);
            }
            Err(e) => out.push(format!("d{i}: snapshot: {e}")),
        }
    }
    for i in 1..snaps.len() {
        if let Some(d) = diff_snap(&snaps[0], &snaps[i]) {
            out.push(format!("d0 vs d{i}: content: {d}"));
        }
    }
    if out.is_empty() {
        None
    } else {
        Some(out)
    }
}

/// Folders that a device's account log says exist (CreateFolder without a
/// later DeleteFolder) but that the device does not hold.
pub async fn folders_recorded_but_not_imported(dev: &Device) -> Vec<String> {
    if dev.account.is_none() {
        return vec![];
    }
    let a = dev.lock().await;
    let mut live: BTreeSet<VaultId> = BTreeSet::new();
    if let Ok(l) = a.account_log().await {
        let l = l.read().await;
        let stream = l.event_stream(false).await;
        pin_mut!(stream);
        while let Some(Ok((_, ev))) = stream.next().await {
            match ev {
                sos_core::events::AccountEvent::CreateFolder(id, _) => {
                    live.insert(id);
                }
                sos_core::events::AccountEvent::DeleteFolder(id) => {
                    live.remove(&id);
                }
                _ => {}
            }
        }
    }
    let have: BTreeSet<VaultId> = match a.list_folders().await {
        Ok(f) => f.iter().map(|s| *s.id()).collect(),
        Err(_) => return vec![],
    };
    live.difference(&have).map(|id| id.to_string()).collect()
}

/// Mechanical evidence of the two recorded design-level root causes, per log
/// kind, over the current logs of all replicas and the commits each device
/// made itself:
///  * `independent`: an event hash that was committed independently more than
///    once (by two devices, twice by one device, or again after it was already
///    shared history). Events are addressed by the hash of their bytes, so such
///    events are indistinguishable to merge and scan.
///  * `same_index`: two replicas' logs diverge and later hold the same event at
///    the same index: the ancestor scan (single-leaf proofs checked against the
///    local leaves) accepts that position as common history.
pub struct RootCause {
    pub independent: BTreeSet<String>,
    pub same_index: BTreeSet<String>,
    pub reordered: BTreeSet<String>,
    pub dup_in_log: BTreeSet<String>,
}

pub async fn root_cause_evidence(world: &NetWorld) -> RootCause {
    let mut rc = RootCause {
        independent: BTreeSet::new(),
        same_index: BTreeSet::new(),
        reordered: BTreeSet::new(),
        dup_in_log: BTreeSet::new(),
    };
    // independent identical commits
    let mut keys: BTreeSet<String> = world.base.keys().cloned().collect();
    for d in &world.devices {
        keys.extend(d.own.logs.keys().cloned());
    }
    for k in &keys {
        let mut count: BTreeMap<[u8; 32], usize> = BTreeMap::new();
        for r in world.base.get(k).map(|v| v.as_slice()).unwrap_or(&[]) {
            *count.entry(r.commit).or_default() += 1;
        }
        for d in &world.devices {
            for r in d.own.logs.get(k).map(|v| v.as_slice()).unwrap_or(&[]) {
                *count.entry(r.commit).or_default() += 1;
            }
        }
        if count.values().any(|n| *n > 1) {
            rc.independent.insert(log_kind(k).to_string());
        }
    }
    let mut all: Vec<LogSet> = vec![];
    if let Ok(l) = server_logs(world).await {
        all.push(l);
    }
    for d in &world.devices {
        if d.dev.account.is_none() {
            continue;
        }
        if let Ok(l) = device_logs(&d.dev).await {
            all.push(l);
        }
    }
    for ls in &all {
        for (k, v) in ls {
            let mut seen = BTreeSet::new();
            if v.iter().any(|r| !seen.insert(r.commit)) {
                rc.dup_in_log.insert(log_kind(k).to_string());
            }
        }
    }
    for x in 0..all.len() {
        for y in (x + 1)..all.len() {
            for (k, a) in &all[x] {
                if let Some(b) = all[y].get(k) {
                    let lcp = a.iter().zip(b.iter()).take_while(|(p, q)| p.commit == q.commit).count();
                    let n = a.len().min(b.len());
                    if lcp < n && (lcp..n).any(|i| a[i].commit == b[i].commit) {
                        rc.same_index.insert(log_kind(k).to_string());
                    }
                    if a != b {
                        let mut p: Vec<_> = a.iter().map(|r| r.commit).collect();
                        let mut q: Vec<_> = b.iter().map(|r| r.commit).collect();
                        p.sort();
                        q.sort();
                        if p == q {
                            rc.reordered.insert(log_kind(k).to_string());
                        }
                    }
                }
            }
        }
    }
    rc
}

impl RootCause {
    /// The tag for a violation that concerns logs of `kind` ("" when none of
    /// the recorded root causes is in evidence).
    pub fn tag(&self, kind: &str) -> &'static str {
        if self.independent.contains(kind) {
            "/log_holds_identical_events"
        } else if self.same_index.contains(kind) {
            "/identical_event_at_same_index_after_divergence"
        } else if self.reordered.contains(kind) {
            "/same_events_different_order"
        } else if self.dup_in_log.contains(kind) {
            "/log_holds_duplicates_made_by_merge"
        } else {
            ""
        }
    }
    /// For differences in served content (names, secrets): any log kind.
    pub fn tag_any(&self) -> &'static str {
        if !self.independent.is_empty() {
            "/log_holds_identical_events"
        } else if !self.same_index.is_empty() {
            "/identical_event_at_same_index_after_divergence"
        } else {
            ""
        }
    }
}

/// C05: converged log == base + max-union of the devices' own commits.
pub async fn check_union(world: &mut NetWorld, rec: &mut Recorder, did_converge: bool) {
    if world.devices.iter().any(|d| d.own.rewritten) {
        rec.stats.probe("c05.skipped_history_rewrite");
        return;
    }
    let mut replicas: Vec<(String, LogSet)> = vec![];
    if let Ok(l) = server_logs(world).await {
        replicas.push(("server".into(), l));
    }
    for d in &world.devices {
        if let Ok(l) = device_logs(&d.dev).await {
            replicas.push((d.dev.name.clone(), l));
        }
    }
    let mut keys: BTreeSet<String> = world.base.keys().cloned().collect();
    for d in &world.devices {
        keys.extend(d.own.logs.keys().cloned());
    }
    let rc = root_cause_evidence(world).await;
    for k in keys {
        let base = world.base.get(&k).cloned().unwrap_or_default();
        let mut expect: BTreeMap<[u8; 32], usize> = BTreeMap::new();
        let mut own_max: BTreeMap<[u8; 32], usize> = BTreeMap::new();
        let mut independent_dups = false;
        for d in &world.devices {
            let mut c: BTreeMap<[u8; 32], usize> = BTreeMap::new();
            for r in d.own.logs.get(&k).map(|v| v.as_slice()).unwrap_or(&[]) {
                *c.entry(r.commit).or_default() += 1;
            }
            for (h, n) in c {
                let e = own_max.entry(h).or_default();
                if *e > 0 {
                    independent_dups = true;
                }
                *e = (*e).max(n);
            }
        }
        if independent_dups {
            rec.stats.probe("c05.identical_independent_events");
        }
        for r in &base {
            *expect.entry(r.commit).or_default() += 1;
        }
        for (h, n) in &own_max {
            *expect.entry(*h).or_default() += n;
        }
        for (name, logs) in &replicas {
            let Some(actual) = logs.get(&k) else {
                // a folder that was deleted everywhere is legitimately absent
                continue;
            };
            let mut got: BTreeMap<[u8; 32], usize> = BTreeMap::new();
            for r in actual {
                *got.entry(r.commit).or_default() += 1;
            }
            rec.stats.count("c05.logs_checked");
            let lost: Vec<String> = expect
                .iter()
                .filter(|(h, n)| got.get(*h).copied().unwrap_or(0) < **n)
                .map(|(h, n)| format!("{}x{}(have {})", &hex::encode(h)[..6], n, got.get(h).copied().unwrap_or(0)))
                .collect();
            let extra: Vec<String> = got
                .iter()
                .filter(|(h, n)| expect.get(*h).copied().unwrap_or(0) < **n)
                .map(|(h, n)| format!("{}x{}(expected {})", &hex::encode(h)[..6], n, expect.get(h).copied().unwrap_or(0)))
                .collect();
            let phase = if did_converge { "converged" } else { "final" };
            let rc_tag = rc.tag(log_kind(&k));
            if !lost.is_empty() && did_converge {
                // an event that was committed more than once (identical bytes)
                // and survives fewer times
                let collapsed = expect
                    .iter()
                    .filter(|(h, n)| got.get(*h).copied().unwrap_or(0) < **n)
                    .all(|(h, n)| *n > 1 && got.get(h).copied().unwrap_or(0) >= 1);
                // the file event log starts empty: without a shared first
                // event two devices' file logs have no common root at all
                let rootless = k == "files" && base.is_empty();
                let tag = if collapsed {
                    "/identical_events_collapsed"
                } else if rootless {
                    "/file_log_without_common_root"
                } else {
                    rc_tag
                };
                rec.violate(
                    "C05",
                    &format!("C05/{phase}/event_lost{tag}/{}", log_kind(&k)),
                    format!("{name} log {k}: committed events missing after convergence: {}", lost.join(",")),
                );
            }
            if !extra.is_empty() {
                let foreign = got.keys().any(|h| !expect.contains_key(h));
                let mut class = if foreign { "foreign_event".to_string() } else { "event_duplicated".to_string() };
                // duplicated hashes that two devices committed independently
                let all_independent = got
                    .iter()
                    .filter(|(h, n)| expect.get(*h).copied().unwrap_or(0) < **n)
                    .all(|(h, _)| {
                        world
                            .devices
                            .iter()
                            .filter(|d| d.own.logs.get(&k).map(|v| v.iter().any(|r| &r.commit == h)).unwrap_or(false))
                            .count()
                            >= 2
                    });
                if !foreign && all_independent {
                    class.push_str("/identical_independent_events_kept_twice");
                } else {
                    class.push_str(rc_tag);
                }
                rec.violate(
                    "C05",
                    &format!("C05/{phase}/{class}/{}", log_kind(&k)),
                    format!("{name} log {k}: {}", extra.join(",")),
                );
            }
            // the base prefix stays a prefix (no reordering of shared history)
            if actual.len() >= base.len() && actual[..base.len()] != base[..] && did_converge {
                rec.violate(
                    "C05",
                    &format!("C05/{phase}/shared_prefix_changed/{}", log_kind(&k)),
                    format!("{name} log {k}: the first {} records are no longer the shared ancestor history", base.len()),
                );
            }
        }
    }
}

/// C08: the ancestor returned by the real scan (`scan_proofs`) vs the true
/// longest common prefix of device and server logs.
pub async fn check_scan_vs_truth(world: &mut NetWorld, rec: &mut Recorder) {
    use sos_core::events::EventLogType;
    use sos_protocol::{AsConflict, ScanRequest};
    let srv = match server_logs(world).await {
        Ok(l) => l,
        Err(_) => return,
    };
    for i in 0..world.devices.len() {
        if world.ensure_bridge(i).await.is_err() {
            continue;
        }
        let dl = match device_logs(&world.devices[i].dev).await {
            Ok(l) => l,
            Err(_) => continue,
        };
        let bridge = world.devices[i].bridge.clone().unwrap();
        for (k, dlog) in &dl {
            let Some(slog) = srv.get(k) else { continue };
            let dc: Vec<[u8; 32]> = dlog.iter().map(|r| r.commit).collect();
            let sc: Vec<[u8; 32]> = slog.iter().map(|r| r.commit).collect();
            if dc == sc || dc.is_empty() || sc.is_empty() {
                continue;
            }
            // only genuinely diverged logs (neither a prefix of the other)
            let lcp = dc.iter().zip(sc.iter()).take_while(|(a, b)| a == b).count();
            if lcp == dc.len() || lcp == sc.len() {
                continue;
            }
            let log_type = match k.as_str() {
                "identity" => EventLogType::Identity,
                "account" => EventLogType::Account,
                "device" => EventLogType::Device,
                "files" => EventLogType::Files,
                f => match f.strip_prefix("folder:").and_then(|x| x.parse().ok()) {
                    Some(id) => EventLogType::Folder(id),
                    None => continue,
                },
            };
            rec.stats.probe("c08.scan_on_diverged_log");
            if dc.len() != sc.len() {
                rec.stats.probe("c08.scan_unequal_lengths");
            }
            let req = ScanRequest { log_type, offset: 0, limit: 32 };
            let res = bridge.scan_proofs(req).await;
            rec.case(&format!("scan:{}|{}", hex_seq(&dc), hex_seq(&sc)));
            match res {
                Ok(Some((commit, _proof))) => {
                    let truth = if lcp > 0 { Some(dc[lcp - 1]) } else { None };
                    if truth != Some(commit.0) {
                        let pos = dc.iter().rposition(|c| *c == commit.0);
                        rec.violate(
                            "C08",
                            "C08/scan/ancestor_is_not_longest_common_prefix",
                            format!("{k} on d{i}: scan returned {} (device index {:?}) but the longest common prefix has length {lcp}; device [{}] server [{}]", &hex::encode(commit.0)[..6], pos, hex_seq(&dc), hex_seq(&sc)),
                        );
                    }
                }
                Ok(None) => {
                    if lcp > 0 {
                        rec.violate(
                            "C08",
                            "C08/scan/common_ancestor_not_found",
                            format!("{k} on d{i}: scan exhausted although the logs share a prefix of {lcp}; device [{}] server [{}]", hex_seq(&dc), hex_seq(&sc)),
                        );
                    }
                }
                Err(e) => {
                    if e.is_hard_conflict() || e.is_conflict() {
                        if lcp > 0 {
                            let class = if dc.len() != sc.len() { "unequal_lengths" } else { "equal_lengths" };
                            rec.violate(
                                "C08",
                                &format!("C08/scan/hard_conflict_despite_common_prefix/{class}"),
                                format!("{k} on d{i}: scan reported a hard conflict although the logs share a prefix of {lcp}; device [{}] server [{}]", hex_seq(&dc), hex_seq(&sc)),
                            );
                        }
                    }
                }
            }
        }
    }
}

// -------------------------------------------------------------------- devices

/// Trust / revoke an extra device key on one device (edits the device log).
pub async fn trust_op(world: &mut NetWorld, di: usize, s: &Value, _rec: &mut Recorder) -> String {
    let before = device_log_lens(&world.devices[di].dev).await;
    // a real Ed25519 public key (the server parses every trusted key)
    let seed = if ju64(s, "key") == 0 { [0x41u8; 32] } else { [0x42u8; 32] };
    let vk = ed25519_dalek::SigningKey::from_bytes(&seed).verifying_key();
    let key: DevicePublicKey = vk.to_bytes().into();
    let res = {
        let mut a = world.devices[di].dev.lock().await;
        if jbool(s, "revoke") {
            a.revoke_device(&key).await.map_err(|e| e.to_string())
        } else {
            let when = time::OffsetDateTime::from_unix_timestamp(1_650_000_000).unwrap();
            let td = TrustedDevice::new(key, Some(Default::default()), Some(when));
            a.patch_devices_unchecked(&[DeviceEvent::Trust(td)]).await.map_err(|e| e.to_string())
        }
    };
    record_own_commits(&mut world.devices[di], before).await;
    match res {
        Ok(()) => "ok".into(),
        Err(e) => format!("err:{}", short_err(&e)),
    }
}

// ------------------------------------------------------ refused requests (C07)

/// C07 at protocol level: a device sends a rewind-and-patch request whose
/// checkpoint cannot match (forged root / stale proof). Whatever the server
/// answers, a refusal must leave every server log exactly as it was.
pub async fn stale_patch_op(world: &mut NetWorld, di: usize, s: &Value, rec: &mut Recorder) -> String {
    use sos_core::events::EventLogType;
    use sos_protocol::{PatchRequest, SyncClient};
    if world.ensure_bridge(di).await.is_err() {
        return "skip".into();
    }
    let before = match server_logs(world).await {
        Ok(l) => l,
        Err(_) => return "skip".into(),
    };
    // choose a log with enough history on the server
    let mut names: Vec<&String> = before.iter().filter(|(_, v)| v.len() >= 2).map(|(k, _)| k).collect();
    names.sort();
    if names.is_empty() {
        return "skip".into();
    }
    let name = names[(ju64(s, "log") as usize) % names.len()].clone();
    let slog = &before[&name];
    let depth = (ju64(s, "depth") as usize % (slog.len() - 1)) + 1; // remove >= 1 records
    let pos = slog.len() - 1 - depth;
    let commit = sos_core::commit::CommitHash(slog[pos].commit);
    let log_type = match name.as_str() {
        "identity" => EventLogType::Identity,
        "account" => EventLogType::Account,
        "device" => EventLogType::Device,
        "files" => EventLogType::Files,
        f => match f.strip_prefix("folder:").and_then(|x| x.parse().ok()) {
            Some(id) => EventLogType::Folder(id),
            None => return "skip".into(),
        },
    };
    // checkpoint: proof of that position in the server's sequence, then broken
    let t = tree_from(&slog[..=pos]);
    let mut proof = match t.head() {
        Ok(p) => p,
        Err(_) => return "skip".into(),
    };
    let mode = jstr(s, "proof");
    if mode == "stale" && pos > 0 {
        // proof of an older head: right shape, wrong state
        if let Ok(p) = tree_from(&slog[..pos]).head() {
            proof = p;
        }
    } else {
        proof.root.0[7] ^= 0x5a;
    }
    if depth >= 2 {
        rec.stats.probe("c07.refused_rewind_multi");
    }
    let bridge = world.devices[di].bridge.clone().unwrap();
    // like a real merged patch, the request carries the events it would
    // rewind (otherwise the server refuses it before rewinding)
    let patch = match bridge
        .client
        .diff(sos_protocol::DiffRequest { log_type, from_hash: Some(commit) })
        .await
    {
        Ok(r) => r.patch,
        Err(_) => vec![],
    };
    let before = match server_logs(world).await {
        Ok(l) => l,
        Err(_) => return "skip".into(),
    };
    let req = PatchRequest { log_type, commit: Some(commit), proof, patch };
    let res = bridge.client.patch(req).await;
    let class = match &res {
        Ok(r) => match &r.checked_patch {
            sos_core::events::patch::CheckedPatch::Success(_) => "accepted",
            sos_core::events::patch::CheckedPatch::Conflict { .. } => "conflict",
        },
        Err(_) => "error",
    };
    rec.stats.count(&format!("c07.stale_patch.{class}"));
    let after = server_logs(world).await.unwrap_or_default();
    if class != "accepted" && after != before {
        let mut diffs = vec![];
        for (k, v) in &before {
            let a = after.get(k).cloned().unwrap_or_default();
            if &a != v {
                let same_set = {
                    let mut x: Vec<_> = v.iter().map(|r| r.commit).collect();
                    let mut y: Vec<_> = a.iter().map(|r| r.commit).collect();
                    x.sort();
                    y.sort();
                    x == y
                };
                diffs.push((log_kind(k).to_string(), same_set, format!("{k}: before [{}] after [{}]",
                    v.iter().map(|r| hex::encode(&r.commit[..2])).collect::<Vec<_>>().join(","),
                    a.iter().map(|r| hex::encode(&r.commit[..2])).collect::<Vec<_>>().join(","))));
            }
        }
        for (kind, same_set, d) in diffs {
            let how = if same_set { "records_reordered" } else { "records_lost_or_added" };
            rec.violate(
                "C07",
                &format!("C07/server/event_patch/refused_but_log_changed/{how}"),
                format!("rewind-and-patch on {kind} (rewind depth {depth}, checkpoint {mode}) was answered {class}, yet {d}"),
            );
        }
    }
    // the server must keep serving and stay consistent with its storage
    class.to_string()
}

/// C11: trust an extra device key, show it is served, revoke it; from then
/// on it must be refused on every route (the sweep adds it as a credential).
pub async fn revoke_flow(world: &mut NetWorld, di: usize, rec: &mut Recorder) -> String {
    use sos_signer::ed25519::{BoxedEd25519Signer, SingleParty};
    if world.revoked_key.is_some() {
        return "skip".into();
    }
    let seed = [0x43u8; 32];
    let key: BoxedEd25519Signer = match SingleParty::try_from(seed) {
        Ok(k) => Box::new(k),
        Err(_) => return "skip".into(),
    };
    let vk = ed25519_dalek::SigningKey::from_bytes(&seed).verifying_key();
    let pk: DevicePublicKey = vk.to_bytes().into();
    let before = device_log_lens(&world.devices[di].dev).await;
    {
        let mut a = world.devices[di].dev.lock().await;
        let when = time::OffsetDateTime::from_unix_timestamp(1_650_000_100).unwrap();
        let td = TrustedDevice::new(pk, Some(Default::default()), Some(when));
        if a.patch_devices_unchecked(&[DeviceEvent::Trust(td)]).await.is_err() {
            return "err:trust".into();
        }
    }
    record_own_commits(&mut world.devices[di], before).await;
    if world.sync(di, rec).await != "ok" {
        return "err:sync_after_trust".into();
    }
    // positive control: the trusted key is served
    let account_id = world.devices[di].dev.account_id;
    let probe = |k: BoxedEd25519Signer| async move {
        let auth = bearer(&k, ROUTE_STATUS.as_bytes()).await.ok()?;
        http::Request::builder()
            .method(http::Method::GET)
            .uri(format!("{ROUTE_STATUS}?connection_id=extra"))
            .header(X_SOS_ACCOUNT_ID, account_id.to_string())
            .header(http::header::AUTHORIZATION, auth)
            .body(axum::body::Body::empty())
            .ok()
    };
    if let Some(req) = probe(key.clone()).await {
        if let Ok((st, _, _)) = world.net.deliver_now(97, "trusted_extra_key:status", req, &[]).await {
            if st.as_u16() != 200 {
                rec.observe(&format!("trusted extra key answered {st}"));
                rec.stats.probe("c11.trusted_extra_key_not_served");
            } else {
                rec.stats.probe("c11.trusted_extra_key_served");
            }
        }
    }
    let before = device_log_lens(&world.devices[di].dev).await;
    {
        let mut a = world.devices[di].dev.lock().await;
        if a.revoke_device(&pk).await.is_err() {
            return "err:revoke".into();
        }
    }
    record_own_commits(&mut world.devices[di], before).await;
    if world.sync(di, rec).await != "ok" {
        return "err:sync_after_revoke".into();
    }
    world.revoked_key = Some(key);
    rec.stats.probe("c11.key_revoked");
    "ok".into()
}

// ------------------------------------------------------------ plaintext (C03)

/// Learn folder passwords and the device signing key, then scan every
/// channel for every marker.
pub async fn plaintext_scan(world: &mut NetWorld, rec: &mut Recorder) {
    use secrecy::ExposeSecret;
    let Some(mut sc) = world.scanner.take() else { return };
    if std::env::var("SOSSIM_C03_SELFTEST").is_ok() {
        // sensitivity self-test: the account name is stored in the clear, so
        // declaring it secret must raise an alarm on every channel that holds it
        marker_custom("Documents", "selftest.folder_name");
    }
    for d in &world.devices {
        if d.dev.account.is_none() {
            continue;
        }
        let a = d.dev.lock().await;
        for fid in d.dev.model.folders.keys() {
            if let Ok(Some(sos_core::crypto::AccessKey::Password(p))) = a.find_folder_password(fid).await {
                marker_custom(p.expose_secret(), "folder.password");
            }
        }
        if let Ok(s) = a.device_signer().await {
            sc.add_secret_bytes(&s.to_bytes(), "device.signing_key");
        }
    }
    // (a) everything written under the run directory since the last step
    for (path, data) in crate::interpose::disk_take_tapped() {
        let role = crate::plainscan::file_role(&path);
        sc.scan(&format!("disk_write:{role}"), &path, &data, rec);
    }
    // (b) every file that exists now
    let root = world.root.clone();
    sc.scan_tree(&root, rec);
    // (c) every wire buffer
    let bufs: Vec<(String, Vec<u8>)> = std::mem::take(&mut *world.net.0.tap.lock().unwrap());
    for (kind, b) in bufs {
        let (dir, k) = kind.split_once(':').unwrap_or(("wire", &kind));
        let ch = if dir == "req" { "wire_request" } else { "wire_response" };
        sc.scan(&format!("{ch}:{k}"), k, &b, rec);
    }
    rec.stats.counters.insert("c03.patterns".into(), sc.markers() as u64);
    rec.stats.counters.insert("c03.bytes_scanned".into(), sc.bytes_scanned);
    world.scanner = Some(sc);
}

/// Export a backup archive into the run directory (scanned like any file).
pub async fn export_op(world: &mut NetWorld, di: usize, idx: usize) -> String {
    let path = world.root.join(format!("export-d{di}-{idx}.zip"));
    let a = world.devices[di].dev.lock().await;
    match a.export_backup_archive(&path).await {
        Ok(_) => "ok".into(),
        Err(e) => format!("err:{}", short_err(&e.to_string())),
    }
}

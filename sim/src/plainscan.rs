//! C03: plaintext markers must never reach storage or the wire.
//!
//! Every plaintext position the harness fills (labels, tags, every field of
//! every secret kind, custom fields, comments, attachments, folder
//! descriptions) carries a unique high-entropy marker; folder passwords, the
//! account password and the device signing key are learned from the account
//! and added. After every step three channels are searched for every marker
//! in raw, hex (both cases), base64 (std and url-safe, three alignments) and
//! UTF-16 (LE/BE) form: (a) every byte written under the run directory
//! (interposed `write`/`pwrite`, so deleted temp files are seen too), (b) a
//! recursive scan of all client and server files (sqlite main/WAL included),
//! (c) every request and response body crossing the simulated network.

use crate::common::*;
use crate::device::MARKERS;
use aho_corasick::AhoCorasick;
use base64::Engine;

pub struct Scanner {
    ac: Option<AhoCorasick>,
    pats: Vec<(String, String)>, // (position, form)
    built_for: usize,
    extra: Vec<(Vec<u8>, String)>, // raw byte secrets (keys)
    pub bytes_scanned: u64,
}

fn forms(raw: &[u8], pos: &str, out_p: &mut Vec<Vec<u8>>, out_m: &mut Vec<(String, String)>) {
    let mut push = |b: Vec<u8>, form: &str| {
        if b.len() >= 8 {
            out_p.push(b);
            out_m.push((pos.to_string(), form.to_string()));
        }
    };
    push(raw.to_vec(), "raw");
    push(hex::encode(raw).into_bytes(), "hex");
    push(hex::encode_upper(raw).into_bytes(), "HEX");
    // base64 at the three alignments: drop the characters that depend on
    // neighbouring bytes
    for (eng, name) in [
        (base64::engine::general_purpose::STANDARD_NO_PAD, "base64"),
        (base64::engine::general_purpose::URL_SAFE_NO_PAD, "base64url"),
    ] {
        for shift in 0..3usize {
            let mut v = vec![0u8; shift];
            v.extend_from_slice(raw);
            let e = eng.encode(&v);
            // skip characters covering the padding prefix and the ragged tail
            let start = if shift == 0 { 0 } else { shift + 1 };
            let total_bits = (shift + raw.len()) * 8;
            let full_chars = total_bits / 6;
            let tail_cut = if total_bits % 6 == 0 { 0 } else { 0 };
            let end = full_chars - tail_cut;
            if end > start + 8 {
                push(e.as_bytes()[start..end.min(e.len())].to_vec(), &format!("{name}+{shift}"));
            }
        }
    }
    if let Ok(s) = std::str::from_utf8(raw) {
        let le: Vec<u8> = s.encode_utf16().flat_map(|c| c.to_le_bytes()).collect();
        let be: Vec<u8> = s.encode_utf16().flat_map(|c| c.to_be_bytes()).collect();
        push(le, "utf16le");
        push(be, "utf16be");
    }
}

fn norm_pos(p: &str) -> String {
    p.chars().filter(|c| !c.is_ascii_digit()).collect()
}

impl Scanner {
    pub fn new() -> Scanner {
        Scanner { ac: None, pats: vec![], built_for: usize::MAX, extra: vec![], bytes_scanned: 0 }
    }

    pub fn add_secret_bytes(&mut self, b: &[u8], what: &str) {
        if !self.extra.iter().any(|(x, _)| x == b) {
            self.extra.push((b.to_vec(), what.to_string()));
            self.built_for = usize::MAX;
        }
    }

    fn rebuild(&mut self) {
        let markers: Vec<(String, String)> = MARKERS.lock().map(|g| g.clone()).unwrap_or_default();
        let key = markers.len() + self.extra.len() * 1_000_000;
        if self.built_for == key {
            return;
        }
        let mut p = vec![];
        let mut m = vec![];
        for (mk, pos) in &markers {
            forms(mk.as_bytes(), &norm_pos(pos), &mut p, &mut m);
            // lower/upper-cased variants (urls are lower-cased, age keys upper-cased)
            let lo = mk.to_lowercase();
            if &lo != mk {
                p.push(lo.into_bytes());
                m.push((norm_pos(pos), "lowercased".into()));
            }
        }
        for (b, what) in &self.extra {
            forms(b, what, &mut p, &mut m);
        }
        self.ac = AhoCorasick::new(&p).ok();
        self.pats = m;
        self.built_for = key;
    }

    pub fn markers(&self) -> usize {
        self.pats.len()
    }

    pub fn scan(&mut self, channel: &str, name: &str, data: &[u8], rec: &mut Recorder) {
        self.rebuild();
        self.bytes_scanned += data.len() as u64;
        let Some(ac) = &self.ac else { return };
        if let Some(mat) = ac.find(data) {
            let (pos, form) = &self.pats[mat.pattern().as_usize()];
            let ctx_start = mat.start().saturating_sub(12);
            let ctx_end = (mat.end() + 12).min(data.len());
            rec.violate(
                "C03",
                &format!("C03/{channel}/{pos}/{form}"),
                format!(
                    "plaintext of {pos} found in {form} form in {channel} {name} at offset {}: ...{}...",
                    mat.start(),
                    String::from_utf8_lossy(&data[ctx_start..ctx_end]).replace('\n', " ")
                ),
            );
        }
    }

    pub fn scan_tree(&mut self, root: &std::path::Path, rec: &mut Recorder) {
        fn walk(p: &std::path::Path, out: &mut Vec<std::path::PathBuf>) {
            if let Ok(rd) = std::fs::read_dir(p) {
                for e in rd.flatten() {
                    let path = e.path();
                    if path.is_dir() {
                        walk(&path, out);
                    } else {
                        out.push(path);
                    }
                }
            }
        }
        let mut files = vec![];
        walk(root, &mut files);
        files.sort();
        for f in files {
            let n = f.to_string_lossy().to_string();
            // the harness's own artefacts
            if n.ends_with("stderr.txt") || n.ends_with("outcome.json") || n.ends_with(".cfg/config.toml") || n.contains("/plan-") {
                continue;
            }
            if let Ok(b) = std::fs::read(&f) {
                let rel = n.strip_prefix(&root.to_string_lossy().to_string()).unwrap_or(&n).to_string();
                let role = file_role(&rel);
                self.scan(&format!("disk_file:{role}"), &rel, &b, rec);
            }
        }
    }
}

pub fn file_role(rel: &str) -> String {
    let side = if rel.starts_with("/server") { "server" } else { "client" };
    let f = rel.rsplit('/').next().unwrap_or(rel);
    let kind = if f.ends_with(".events") {
        "events"
    } else if f.ends_with(".vault") {
        "vault"
    } else if f.contains(".db") {
        "sqlite"
    } else if f.ends_with(".zip") {
        "archive"
    } else if f.contains("audit") {
        "audit"
    } else if rel.contains("/files/") || rel.contains("/blobs/") {
        "blob"
    } else {
        "other"
    };
    format!("{side}.{kind}")
}

//! Family `crash` (C13): crash at every mutating storage step of an
//! operation, and torn writes.
//!
//! One run = a seeded history H executed on a device, then for a list of
//! target operations: (1) a *twin* child process executes the operation on a
//! copy of the data directory with the disk seam tracing, yielding the number
//! N of mutating file-system calls (file-system backend: every write /
//! truncate / rename / unlink / create; sqlite: every write the bundled
//! SQLite issues, including its journal/WAL) and the after-state; (2) for
//! every crash point k <= N (and tear offsets for writes) a *crash* child
//! executes the same operation on a fresh copy and is killed with `_exit` at
//! step k by the interposed call; (3) the orchestrator re-opens the crashed
//! directory the normal way and checks: the account opens, every event log
//! equals its before-state or its after-state, every folder served equals the
//! replay of its log and its persisted vault.

use crate::common::*;
use crate::device::*;
use crate::interpose::{self, DiskOp};
use crate::netoracle::{self as no, LogSet};
use crate::rng::Rng;
use serde_json::{json, Value};
use std::path::{Path, PathBuf};
use std::process::{Command, Stdio};

pub fn generate(property: &str, seed: u64, tier: Tier) -> Plan {
    let mut r = Rng::new(seed).fork("crash");
    let backend = seed % 2;
    let n_pre = r.range(2, 7);
    let mut val = seed.wrapping_mul(31337) % 1_000_000;
    let mut steps = vec![];
    steps.push(json!({"op":"fcreate","fslot":0,"name":r.below(2),"cipher":r.below(2),"kdf":0,"val":val}));
    let mut created: Vec<u64> = vec![];
    for _ in 0..n_pre {
        val += 1;
        let slot = r.below(5);
        if !created.contains(&slot) {
            created.push(slot);
        }
        steps.push(json!({"op":"create","slot":slot,"folder":*r.pick(&[0u64,0,4]),"kind":r.below(15),"val":val,
            "label":r.below(3),"tags":r.below(8),"fav":false,"big":false}));
    }
    // target operations (each is crashed at every step)
    let n_targets = match tier { Tier::Quick => 2, Tier::Thorough => 4 };
    let kinds = ["create","update","delete","move","fcreate","frename","fflags","fdesc","fdelete","compact","chpw_folder","archive"];
    for _ in 0..n_targets {
        val += 1;
        let k = *r.pick(&kinds);
        let slot = *r.pick(&created);
        let t = match k {
            "create" => json!({"op":"create","slot":slot,"folder":*r.pick(&[0u64,4]),"kind":r.below(15),"val":val,"label":r.below(3),"tags":r.below(8),"fav":false,"big":false}),
            "update" => json!({"op":"update","slot":slot,"val":val,"label":r.below(3),"tags":r.below(8),"fav":false,"meta_only":r.chance(1,4)}),
            "delete" => json!({"op":"delete","slot":slot}),
            "move" => json!({"op":"move","slot":slot,"to":*r.pick(&[0u64,4,1])}),
            "archive" => json!({"op":"archive","slot":slot}),
            "fcreate" => json!({"op":"fcreate","fslot":1,"name":r.below(2),"cipher":r.below(2),"kdf":0,"val":val}),
            "frename" => json!({"op":"frename","fslot":*r.pick(&[0u64,4]),"name":r.below(2),"val":val}),
            "fflags" => json!({"op":"fflags","fslot":*r.pick(&[0u64,4]),"local":false}),
            "fdesc" => json!({"op":"fdesc","fslot":*r.pick(&[0u64,4]),"val":val}),
            "fdelete" => json!({"op":"fdelete","fslot":0}),
            "compact" => json!({"op":"compact","fslot":*r.pick(&[0u64,4])}),
            _ => json!({"op":"chpw_folder","fslot":*r.pick(&[0u64,4]),"val":val}),
        };
        let mut t = t;
        t["target"] = json!(true);
        steps.push(t);
    }
    // force merge (replace-all of a folder log + vault rewrite) as a crash
    // target: remember the folder log early, crash the replacement later.
    // Independent stream: the rest of a seed's plan is unchanged.
    {
        let mut fr = Rng::new(seed).fork("crash.force_merge");
        if fr.chance(1, 3) && steps.len() >= 3 {
            let fslot = *fr.pick(&[0u64, 0, 4]);
            let first_target = steps.iter().position(|s| jbool(s, "target")).unwrap_or(steps.len());
            let at = 1 + fr.below(first_target.max(2) as u64 - 1) as usize;
            steps.insert(at.min(first_target), json!({"op":"fsnap","fslot":fslot}));
            steps.push(json!({"op":"frevert","fslot":fslot,"target":true}));
        }
    }
    Plan {
        family: "crash".into(),
        property: property.into(),
        seed,
        config: json!({"backend": backend, "max_points": match tier { Tier::Quick => 24, Tier::Thorough => 120 },
            "tear_all_bytes": tier == Tier::Thorough}),
        steps,
    }
}

#[derive(serde::Serialize, serde::Deserialize, Default)]
pub struct OpReport {
    pub class: String,
    pub trace: Vec<DiskOp>,
    pub after_logs: LogSet,
    pub model_after: Option<Model>,
    /// mutating calls seen while the account was being opened (before the
    /// observed operation): must be empty for the pairing of twin and crash
    /// runs to be exact
    #[serde(default)]
    pub open_trace: Vec<DiskOp>,
}

#[derive(serde::Serialize, serde::Deserialize)]
pub struct OpJob {
    pub dir: PathBuf,
    pub db: bool,
    pub account_id: String,
    pub password: String,
    pub model: Model,
    pub step: Value,
    pub seed: u64,
    pub clock_ns: i64,
    pub crash_at: u64,
    pub tear: u64,
    pub out: PathBuf,
    /// remembered folder logs (fsnap) so that a force merge (frevert) can be a
    /// crash target: (folder slot, folder id, hex of the encoded records, model)
    #[serde(default)]
    pub fsnaps: Vec<(u64, String, Vec<String>, FolderM)>,
}

/// Child entry point: run one operation with the disk seam armed.
pub async fn run_op_job(job: OpJob) {
    use secrecy::SecretString;
    let kind = if job.db { BackendKind::Db } else { BackendKind::Fs };
    let account_id: sos_core::AccountId = job.account_id.parse().expect("account id");
    let password: SecretString = job.password.clone().into();
    interpose::disk_watch(&[job.dir.as_path()], true, false);
    let mut dev = Device::open_existing("d0", &job.dir, kind, account_id, password)
        .await
        .expect("open device for crash op");
    let open_trace = interpose::disk_take_trace();
    interpose::disk_unwatch();
    dev.model = job.model.clone();
    for (fslot, fid, recs, fm) in &job.fsnaps {
        let Ok(fid) = fid.parse::<sos_core::VaultId>() else { continue };
        let mut out = vec![];
        for h in recs {
            if let Ok(b) = hex::decode(h) {
                if let Ok(r) = sos_core::decode::<sos_core::events::EventRecord>(&b).await {
                    out.push(r);
                }
            }
        }
        dev.fsnaps.insert(*fslot, (fid, out, fm.clone()));
    }
    // identical randomness and clock in the twin and in every crash run
    interpose::reseed_main(job.seed ^ 0xC4A5_0000);
    interpose::clock_enable(job.clock_ns, 1_000_003);
    interpose::disk_watch(&[job.dir.as_path()], true, false);
    if job.crash_at > 0 {
        interpose::disk_arm_crash(job.crash_at, job.tear);
    } else {
        interpose::disk_reset_count();
    }
    let mut rec = Recorder::default();
    let class = dev.exec(&job.step, &mut rec, 0).await;
    let trace = interpose::disk_take_trace();
    interpose::disk_unwatch();
    let after_logs = no::device_logs(&dev).await.unwrap_or_default();
    let rep = OpReport { class, trace, after_logs, model_after: Some(dev.model.clone()), open_trace };
    std::fs::write(&job.out, serde_json::to_vec(&rep).unwrap()).expect("write report");
}

fn spawn_job(job: &OpJob, jobfile: &Path) -> Option<i32> {
    std::fs::write(jobfile, serde_json::to_vec(job).unwrap()).ok()?;
    let exe = std::env::current_exe().ok()?;
    let mut child = Command::new(exe)
        .arg("crash-op")
        .arg(jobfile)
        .stdin(Stdio::null())
        .stdout(Stdio::null())
        .stderr(Stdio::null())
        .spawn()
        .ok()?;
    let start = std::time::Instant::now();
    loop {
        match child.try_wait() {
            Ok(Some(st)) => return st.code(),
            Ok(None) => {
                if start.elapsed().as_secs() > 120 {
                    let _ = child.kill();
                    let _ = child.wait();
                    return Some(-9);
                }
                std::thread::sleep(std::time::Duration::from_millis(3));
            }
            Err(_) => return None,
        }
    }
}

fn role_of(path: &str) -> String {
    let p = path.trim_start_matches('/');
    let file = p.rsplit('/').next().unwrap_or(p);
    if file.ends_with(".events") {
        let stem = file.trim_end_matches(".events");
        if p.starts_with("identity/") {
            "identity.events".into()
        } else if stem == "account" || stem == "devices" || stem == "files" {
            format!("{stem}.events")
        } else {
            "folder.events".into()
        }
    } else if file.contains(".snapshot-") {
        "events.snapshot".into()
    } else if file.ends_with(".vault") {
        if p.starts_with("identity/") { "identity.vault".into() } else { "folder.vault".into() }
    } else if file.ends_with(".db") {
        "sqlite.db".into()
    } else if file.ends_with("-wal") {
        "sqlite.wal".into()
    } else if file.ends_with("-journal") {
        "sqlite.journal".into()
    } else if file.ends_with("-shm") {
        "sqlite.shm".into()
    } else {
        "other".into()
    }
}

pub async fn execute(plan: Plan, dir: &Path) -> RunOutcome {
    let mut rec = Recorder::default();
    let kind = if ju64(&plan.config, "backend") == 0 { BackendKind::Fs } else { BackendKind::Db };
    let backend = kind.name();
    let max_points = jusize(&plan.config, "max_points").max(4);
    let base = dir.join("base");
    let password = "crash world password 1";
    let mut dev = match Device::create("d0", &base, kind, password, true).await {
        Ok(d) => d,
        Err(e) => {
            let mut o = rec.finish(plan);
            o.harness_error = Some(format!("create account: {e}"));
            return o;
        }
    };
    let account_id = dev.account_id;
    let steps = plan.steps.clone();
    let mut rng = Rng::new(plan.seed).fork("crash-points");
    let mut points_total = 0u64;
    for (idx, s) in steps.iter().enumerate() {
        rec.step = idx;
        let opn = jstr(s, "op");
        if !jbool(s, "target") {
            let c = dev.exec(s, &mut rec, 0).await;
            dev.invalidate_fsnaps(&opn, s, &c);
            rec.step(idx, &opn, c.split(':').next().unwrap_or(""), backend);
            continue;
        }
        // ---- snapshot of the state before the target operation
        let before_logs = no::device_logs(&dev).await.unwrap_or_default();
        let mut fsnaps_ser: Vec<(u64, String, Vec<String>, FolderM)> = vec![];
        for (fslot, (fid, recs, fm)) in dev.fsnaps.iter() {
            let mut hexes = vec![];
            for r in recs {
                if let Ok(b) = sos_core::encode(r).await {
                    hexes.push(hex::encode(b));
                }
            }
            fsnaps_ser.push((*fslot, fid.to_string(), hexes, fm.clone()));
        }
        let model = dev.model.clone();
        let clock_ns = interpose::clock_now();
        let pw = {
            use secrecy::ExposeSecret;
            dev.password.expose_secret().to_string()
        };
        dev.account = None; // close storage so that the copy is consistent
        tokio::task::yield_now().await;
        let snap = dir.join(format!("snap{idx}"));
        let _ = std::fs::remove_dir_all(&snap);
        if snapshot_dir(&base, &snap).await.is_err() {
            let _ = dev.open().await;
            continue;
        }
        // ---- twin
        let twin = dir.join(format!("twin{idx}"));
        let _ = copy_dir_all(&snap, &twin);
        let out = dir.join(format!("twin{idx}.json"));
        let job = OpJob {
            dir: twin.clone(),
            db: kind == BackendKind::Db,
            account_id: account_id.to_string(),
            password: pw.clone(),
            model: model.clone(),
            step: s.clone(),
            seed: plan.seed.wrapping_add(idx as u64),
            clock_ns,
            crash_at: 0,
            tear: 0,
            out: out.clone(),
            fsnaps: fsnaps_ser.clone(),
        };
        let code = spawn_job(&job, &dir.join(format!("job{idx}.json")));
        let twin_rep: Option<OpReport> =
            std::fs::read(&out).ok().and_then(|b| serde_json::from_slice(&b).ok());
        let _ = std::fs::remove_dir_all(&twin);
        let Some(twin_rep) = twin_rep else {
            rec.observe(&format!("twin failed: {code:?}"));
            rec.step(idx, &opn, "twin_failed", backend);
            let _ = dev.open().await;
            let c = dev.exec(s, &mut rec, 0).await;
            dev.invalidate_fsnaps(&opn, s, &c);
            continue;
        };
        let n = twin_rep.trace.len() as u64;
        if !twin_rep.open_trace.is_empty() {
            rec.stats.probe("c13.writes_while_opening_the_account");
            if std::env::var("SOSSIM_TRACE").is_ok() {
                eprintln!("open trace: {:?}", twin_rep.open_trace.iter().map(|o| format!("{}@{}:{}", o.kind, o.path, o.len)).collect::<Vec<_>>());
            }
        }
        rec.stats.count_n("c13.mutating_steps", n);
        if !(twin_rep.class == "ok") || n == 0 {
            // the operation is a no-op / error in this state: nothing to crash
            rec.step(idx, &opn, &format!("twin_{}", twin_rep.class.split(':').next().unwrap_or("")), backend);
            let _ = dev.open().await;
            let c = dev.exec(s, &mut rec, 0).await;
            dev.invalidate_fsnaps(&opn, s, &c);
            continue;
        }
        // ---- crash points
        let mut points: Vec<(u64, u64, String)> = vec![]; // (k, tear, tear class)
        for (i, op) in twin_rep.trace.iter().enumerate() {
            let k = i as u64 + 1;
            if (op.kind == "write" || op.kind == "pwrite") && op.len > 0 {
                points.push((k, 0, "before".into()));
                if op.len > 1 {
                    if jbool(&plan.config, "tear_all_bytes") && op.len <= 512 && role_of(&op.path).ends_with(".events") {
                        for j in 1..op.len {
                            points.push((k, j, "torn".into()));
                        }
                    } else {
                        points.push((k, 1, "torn".into()));
                        points.push((k, op.len / 2, "torn".into()));
                        points.push((k, op.len - 1, "torn".into()));
                    }
                }
            } else {
                points.push((k, 0, "before".into()));
            }
        }
        // crash after the last step == the operation completed: covered by twin
        if points.len() > max_points {
            // stratified sample: keep first/last and a seeded subset
            let mut keep = vec![points[0].clone(), points[points.len() - 1].clone()];
            while keep.len() < max_points {
                let p = points[rng.below(points.len() as u64) as usize].clone();
                if !keep.contains(&p) {
                    keep.push(p);
                }
            }
            points = keep;
        }
        for (k, tear, tclass) in points {
            let cdir = dir.join(format!("c{idx}"));
            let _ = std::fs::remove_dir_all(&cdir);
            if copy_dir_all(&snap, &cdir).is_err() {
                continue;
            }
            let cout = dir.join(format!("c{idx}.json"));
            let _ = std::fs::remove_file(&cout);
            let cjob = OpJob { dir: cdir.clone(), crash_at: k, tear, out: cout.clone(), ..clone_job(&job) };
            let code = spawn_job(&cjob, &dir.join(format!("cjob{idx}.json")));
            points_total += 1;
            let op = &twin_rep.trace[(k - 1) as usize];
            let at = format!("{}@{}", op.kind, role_of(&op.path));
            rec.case(&format!("{backend}:{opn}:{at}:{tclass}"));
            if code != Some(interpose::CRASH_EXIT) {
                // the child finished without reaching step k (or failed): not a crash run
                rec.stats.count("c13.crash_point_not_reached");
                continue;
            }
            rec.stats.fault(if tclass == "torn" { "disk.torn" } else { "disk.crash" });
            // ---- restart the normal way and check
            let sig_tail = format!("{opn}/at:{at}/{tclass}");
            let mut crashed = Device {
                name: "d0".into(),
                dir: cdir.clone(),
                kind,
                account: None,
                account_id,
                password: pw.clone().into(),
                model: model.clone(),
                marker_labels: false,
                fsnaps: Default::default(),
            };
            match crashed.open().await {
                Err(e) => {
                    // a password change may have completed: try the new one
                    rec.violate(
                        "C13",
                        &format!("C13/{backend}/cannot_open_after_crash/{sig_tail}"),
                        format!("crash at step {k}/{n} ({at}, tear {tear}): sign in fails: {e}"),
                    );
                }
                Ok(()) => {
                    match no::device_logs(&crashed).await {
                        Ok(now) => {
                            for (name, recs) in &now {
                                let b = before_logs.get(name);
                                let a = twin_rep.after_logs.get(name);
                                let eq = |x: Option<&Vec<no::RecT>>| {
                                    x.map(|v| {
                                        v.len() == recs.len() && v.iter().zip(recs.iter()).all(|(p, q)| p.commit == q.commit)
                                    })
                                    .unwrap_or(false)
                                };
                                if !eq(b) && !eq(a) {
                                    let how = if recs.is_empty() {
                                        "emptied"
                                    } else if a.map(|v| recs.len() < v.len() && recs.len() > b.map(|x| x.len()).unwrap_or(0)).unwrap_or(false) {
                                        "partially_applied"
                                    } else {
                                        "neither_before_nor_after"
                                    };
                                    rec.violate(
                                        "C13",
                                        &format!("C13/{backend}/log_{how}/{}/{sig_tail}", no::log_kind(name)),
                                        format!("crash at step {k}/{n} ({at}, tear {tear}): log {name} has {} records; before {} after {}", recs.len(), b.map(|v| v.len()).unwrap_or(0), a.map(|v| v.len()).unwrap_or(0)),
                                    );
                                }
                            }
                            for name in before_logs.keys() {
                                if !now.contains_key(name) && twin_rep.after_logs.contains_key(name) {
                                    rec.violate(
                                        "C13",
                                        &format!("C13/{backend}/log_missing/{}/{sig_tail}", no::log_kind(name)),
                                        format!("crash at step {k}/{n} ({at}): log {name} is gone although it exists before and after"),
                                    );
                                }
                            }
                        }
                        Err(e) => rec.violate(
                            "C13",
                            &format!("C13/{backend}/logs_unreadable_after_crash/{sig_tail}"),
                            format!("crash at step {k}/{n} ({at}, tear {tear}): {e}"),
                        ),
                    }
                    // folder served == replay(log) == persisted vault
                    let mut sub = Recorder::default();
                    sub.step = idx;
                    no::check_replay_as(&mut crashed, &mut sub, "crash", false, "C13").await;
                    for v in sub.violations {
                        // C13/<backend>/<what>/<class> -> append the crash site
                        rec.violate(
                            "C13",
                            &format!("{}/{sig_tail}", v.signature),
                            format!("crash at step {k}/{n} ({at}, tear {tear}): {}", v.detail),
                        );
                    }
                }
            }
            drop(crashed);
            let _ = std::fs::remove_dir_all(&cdir);
        }
        let _ = std::fs::remove_dir_all(&snap);
        rec.step(idx, &opn, &format!("crashed_n{}", n.min(99)), backend);
        // continue the history on the base directory
        if dev.open().await.is_err() {
            break;
        }
        let c = dev.exec(s, &mut rec, 0).await;
        dev.invalidate_fsnaps(&opn, s, &c);
    }
    rec.stats.count_n("cases", points_total);
    rec.stats.count_n("c13.crash_points", points_total);
    rec.stats.sim_time_s = (interpose::clock_now() - interpose::CLOCK_BASE_NS) as f64 / 1e9;
    rec.finish(plan)
}

fn clone_job(j: &OpJob) -> OpJob {
    OpJob {
        dir: j.dir.clone(),
        db: j.db,
        account_id: j.account_id.clone(),
        password: j.password.clone(),
        model: j.model.clone(),
        step: j.step.clone(),
        seed: j.seed,
        clock_ns: j.clock_ns,
        crash_at: j.crash_at,
        tear: j.tear,
        out: j.out.clone(),
        fsnaps: j.fsnaps.clone(),
    }
}

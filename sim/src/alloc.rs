//! Counting global allocator: lets the malformed-input checks bound the
//! memory a decoder allocates for a given input.

use std::alloc::{GlobalAlloc, Layout, System};
use std::sync::atomic::{AtomicUsize, Ordering::Relaxed};

pub struct Counting;

static CURRENT: AtomicUsize = AtomicUsize::new(0);
static PEAK: AtomicUsize = AtomicUsize::new(0);

unsafe impl GlobalAlloc for Counting {
    unsafe fn alloc(&self, l: Layout) -> *mut u8 {
        let p = System.alloc(l);
        if !p.is_null() {
            let c = CURRENT.fetch_add(l.size(), Relaxed) + l.size();
            PEAK.fetch_max(c, Relaxed);
        }
        p
    }
    unsafe fn dealloc(&self, p: *mut u8, l: Layout) {
        CURRENT.fetch_sub(l.size(), Relaxed);
        System.dealloc(p, l)
    }
    unsafe fn realloc(&self, p: *mut u8, l: Layout, n: usize) -> *mut u8 {
        let q = System.realloc(p, l, n);
        if !q.is_null() {
            if n >= l.size() {
                let c = CURRENT.fetch_add(n - l.size(), Relaxed) + (n - l.size());
                PEAK.fetch_max(c, Relaxed);
            } else {
                CURRENT.fetch_sub(l.size() - n, Relaxed);
            }
        }
        q
    }
}

/// Start a measurement: returns the current level and resets the peak to it.
pub fn mark() -> usize {
    let c = CURRENT.load(Relaxed);
    PEAK.store(c, Relaxed);
    c
}

/// Peak above the level returned by `mark`.
pub fn peak_above(mark: usize) -> usize {
    PEAK.load(Relaxed).saturating_sub(mark)
}

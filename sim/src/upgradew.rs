//! C19: upgrading file-system accounts to the database backend.
//!
//! Operations of the multi-device world (family `netw`, property C19, every
//! device and the server start on the file-system backend):
//!  * `upgrade` — a device signs out, the upgrader runs as a dry run (which
//!    must leave the directory byte-for-byte untouched), then for real; the
//!    device comes back on the database backend and the history goes on.
//!  * `upgrade_server` — the server stops, its storage is upgraded (server
//!    layout), it restarts on the database backend.
//!
//! Oracles at each upgrade: every event log keeps its root and length
//! (SyncStatus before == after, per log), the served account equals the model
//! and the replay of its logs and its persisted vaults, trusted devices and
//! external file blobs are the same; a device that was in sync before the
//! upgrade still is (the next sync succeeds and changes nothing). After the
//! upgrade the ordinary oracles keep running on the database-backed replica.

use crate::common::*;
use crate::device::*;
use crate::net::*;
use crate::netoracle as no;
use crate::netw::NetWorld;
use serde_json::Value;
use sos_account::Account;
use sos_backend::{BackendTarget, Preferences, ServerOrigins};
use sos_core::{Origin, Paths, RemoteOrigins};
use sos_preferences::PreferenceManager;
use sos_database_upgrader::{upgrade_accounts, UpgradeOptions};
use std::collections::{BTreeMap, BTreeSet};
use std::path::Path;
use std::sync::Arc;

fn blobs(dir: &Path, id: &sos_core::AccountId, server: bool) -> BTreeMap<String, String> {
    // external file blobs by (folder/secret/name) -> hash, wherever the layout keeps them
    let paths = if server { Paths::new_server(dir) } else { Paths::new_client(dir) }.with_account_id(id);
    let root = paths.into_files_dir();
    let mut out = BTreeMap::new();
    if root.exists() {
        for (k, v) in crate::archw::tree(&root, Path::new("/nonexistent")) {
            if !k.ends_with('/') {
                out.insert(k, v);
            }
        }
    }
    out
}


// ---- side tables that the upgrader must carry over: preferences (global and
// per account) and the account's server list. The harness populates them on
// the file-system account right before the upgrade (derived from the step, no
// random draw) and reads them back through the database backend afterwards.

fn fs_target(dir: &Path, id: &sos_core::AccountId) -> BackendTarget {
    BackendTarget::FileSystem(Paths::new_client(dir).with_account_id(id))
}

async fn db_target(dir: &Path, id: &sos_core::AccountId) -> anyhow::Result<BackendTarget> {
    let paths = Paths::new_client(dir).with_account_id(id);
    let client = sos_database::open_file(paths.database_file()).await?;
    Ok(BackendTarget::Database(paths, client))
}

type SideTables = (BTreeMap<String, Value>, BTreeMap<String, Value>, BTreeSet<(String, String)>);

async fn read_side_tables(target: BackendTarget, id: &sos_core::AccountId) -> Result<SideTables, String> {
    let mut prefs = Preferences::new(target.clone());
    prefs.load_global_preferences().await.map_err(|e| format!("global preferences: {e}"))?;
    prefs.new_account(id).await.map_err(|e| format!("account preferences: {e}"))?;
    let g = prefs.global_preferences();
    let g = g.lock().await;
    let globals: BTreeMap<String, Value> =
        g.iter().map(|(k, v)| (k.clone(), serde_json::to_value(v).unwrap_or(Value::Null))).collect();
    let a = prefs.account_preferences(id).await.ok_or("no account preferences")?;
    let a = a.lock().await;
    let account: BTreeMap<String, Value> =
        a.iter().map(|(k, v)| (k.clone(), serde_json::to_value(v).unwrap_or(Value::Null))).collect();
    let servers = ServerOrigins::new(target, id);
    let list = servers.list_servers().await.map_err(|e| format!("server list: {e}"))?;
    let servers: BTreeSet<(String, String)> = list.iter().map(|o| (o.name().to_string(), o.url().to_string())).collect();
    Ok((globals, account, servers))
}

async fn populate_side_tables(dir: &Path, id: &sos_core::AccountId, di: usize, keep: bool) -> Result<(), String> {
    let target = fs_target(dir, id);
    let mut prefs = Preferences::new(target.clone());
    prefs.load_global_preferences().await.map_err(|e| e.to_string())?;
    prefs.new_account(id).await.map_err(|e| e.to_string())?;
    {
        let g = prefs.global_preferences();
        let mut g = g.lock().await;
        g.insert("verif.global.flag".to_owned(), keep.into()).await.map_err(|e| e.to_string())?;
        g.insert(format!("verif.global.dev{di}"), (di as i64 - 7).into()).await.map_err(|e| e.to_string())?;
    }
    {
        let a = prefs.account_preferences(id).await.ok_or("no account preferences")?;
        let mut a = a.lock().await;
        a.insert("verif.bool".to_owned(), (!keep).into()).await.map_err(|e| e.to_string())?;
        a.insert("verif.int".to_owned(), (-15i64 - di as i64).into()).await.map_err(|e| e.to_string())?;
        a.insert("verif.double".to_owned(), (2.54f64).into()).await.map_err(|e| e.to_string())?;
        a.insert("verif.string".to_owned(), format!("message \"{di}\" \u{e9}").into()).await.map_err(|e| e.to_string())?;
        a.insert("verif.list".to_owned(), vec!["item-1".to_owned(), String::new(), "item,3".to_owned()].into())
            .await
            .map_err(|e| e.to_string())?;
        a.insert("verif.map".to_owned(), serde_json::json!({"foo": "bar", "n": [1, 2, {"x": null}]}).into())
            .await
            .map_err(|e| e.to_string())?;
        if keep {
            // a key written and removed again must stay removed
            a.insert("verif.removed".to_owned(), true.into()).await.map_err(|e| e.to_string())?;
            a.remove("verif.removed").await.map_err(|e| e.to_string())?;
        }
    }
    let mut servers = ServerOrigins::new(target, id);
    let first = Origin::new(format!("first-{di}"), "https://first.example.com:5053/".parse().map_err(|e| format!("{e}"))?);
    let second = Origin::new("second".to_owned(), format!("https://second.example.com/base/{di}").parse().map_err(|e| format!("{e}"))?);
    servers.add_server(first).await.map_err(|e| e.to_string())?;
    servers.add_server(second.clone()).await.map_err(|e| e.to_string())?;
    if keep {
        let third = Origin::new("third".to_owned(), "http://192.168.1.33:8080".parse().map_err(|e| format!("{e}"))?);
        servers.add_server(third.clone()).await.map_err(|e| e.to_string())?;
        servers.remove_server(&second).await.map_err(|e| e.to_string())?;
    }
    Ok(())
}

async fn trusted(dev: &Device) -> BTreeSet<String> {
    let a = dev.lock().await;
    match a.trusted_devices().await {
        Ok(t) => t.iter().map(|d| d.public_key().to_string()).collect(),
        Err(_) => BTreeSet::new(),
    }
}

pub async fn upgrade_device(world: &mut NetWorld, di: usize, s: &Value, rec: &mut Recorder) -> String {
    if world.devices[di].dev.kind != BackendKind::Fs || world.devices[di].dev.account.is_none() {
        return "skip".into();
    }
    let dir = world.devices[di].dev.dir.clone();
    let id = world.devices[di].dev.account_id;
    // ---- before
    let st_before = match no::device_status(&world.devices[di].dev).await {
        Ok(s) => no::status_map(&s),
        Err(e) => return format!("err:status:{}", short_err(&e)),
    };
    let trusted_before = trusted(&world.devices[di].dev).await;
    let blobs_before = blobs(&dir, &id, false);
    let in_sync_before = match no::server_status(world).await {
        Ok(ss) => {
            let sm = no::status_map(&ss);
            st_before.iter().all(|(k, v)| sm.get(k) == Some(v)) && sm.len() == st_before.len()
        }
        Err(_) => false,
    };
    // What a fresh account over the same file-system storage serves: the
    // reference for "the upgrade loses nothing". (The live in-memory account
    // can differ from its own persisted state for reasons that are C02's
    // business, e.g. a folder name recorded in two independently ordered logs.)
    world.devices[di].bridge = None;
    let persisted_before = match world.devices[di].dev.open().await {
        Ok(()) => world.devices[di].dev.snapshot().await.ok(),
        Err(_) => None,
    };
    // inconsistencies the file-system account already has (log replay vs
    // served vs persisted vault) are not the upgrader's doing
    let mut pre = Recorder::default();
    if world.devices[di].dev.account.is_some() {
        no::check_replay_as(&mut world.devices[di].dev, &mut pre, "upgrade", false, "C19").await;
    }
    let pre_sigs: BTreeSet<String> = pre.violations.iter().map(|v| v.signature.replace("/fs/", "/*/")).collect();
    // sign out: the upgrader works on closed accounts
    world.devices[di].dev.account = None;
    tokio::task::yield_now().await;

    // a second account in the same data directory (the upgrader imports every
    // account it finds): created, signed in and out through the normal API, with
    // its own preferences and a server list that shares one URL with the first
    // account's. Derived from the step, no random draw from the plan's stream.
    let keep_flag = jbool(s, "keep_stale");
    let second_pw = "second-account-password-c19";
    let mut second: Option<(sos_core::AccountId, BTreeMap<String, (String, usize)>)> = None;
    if keep_flag || di % 2 == 0 {
        match Device::create(&format!("second-{di}"), &dir, BackendKind::Fs, second_pw, false).await {
            Ok(mut d2) => {
                let st2 = no::device_status(&d2).await.map(|s| no::status_map(&s));
                d2.account = None;
                tokio::task::yield_now().await;
                match st2 {
                    Ok(m) => {
                        rec.stats.count("c19.second_accounts");
                        second = Some((d2.account_id, m));
                    }
                    Err(e) => rec.observe(&format!("c19: second account status unreadable: {}", short_err(&e))),
                }
            }
            Err(e) => rec.observe(&format!("c19: second account not created: {}", short_err(&e.to_string()))),
        }
    }
    // preferences and server list of the file-system accounts
    let mut populated = populate_side_tables(&dir, &id, di, keep_flag).await;
    if let (Ok(()), Some((id2, _))) = (&populated, &second) {
        populated = populate_side_tables(&dir, id2, di + 10, !keep_flag).await;
    }
    let side_before = match populated {
        Ok(()) => match read_side_tables(fs_target(&dir, &id), &id).await {
            Ok(t) => Some(t),
            Err(e) => {
                rec.observe(&format!("c19: side tables of the file-system account unreadable: {e}"));
                None
            }
        },
        Err(e) => {
            rec.observe(&format!("c19: side tables not populated: {e}"));
            None
        }
    };
    let side2_before = match (&side_before, &second) {
        (Some(_), Some((id2, _))) => read_side_tables(fs_target(&dir, id2), id2).await.ok(),
        _ => None,
    };

    // ---- dry run: must not touch the source
    let tree_before = crate::archw::tree(&dir, Path::new("/nonexistent"));
    let dry = upgrade_accounts(
        &dir,
        UpgradeOptions { paths: Paths::new_client(&dir), dry_run: true, ..Default::default() },
    )
    .await;
    let tree_after = crate::archw::tree(&dir, Path::new("/nonexistent"));
    if tree_before != tree_after {
        let changed: Vec<String> = tree_after
            .iter()
            .filter(|(k, v)| tree_before.get(*k) != Some(*v))
            .map(|(k, _)| format!("+{k}"))
            .chain(tree_before.keys().filter(|k| !tree_after.contains_key(*k)).map(|k| format!("-{k}")))
            .take(5)
            .collect();
        rec.violate(
            "C19",
            "C19/client/dry_run_changed_the_source",
            format!("a dry run of the upgrade changed files under the data directory: {changed:?}"),
        );
    }
    if let Err(e) = &dry {
        rec.violate("C19", "C19/client/dry_run_failed", format!("{e}"));
    }
    rec.stats.count("c19.dry_runs");

    // ---- for real
    let keep = jbool(s, "keep_stale");
    let res = upgrade_accounts(
        &dir,
        UpgradeOptions {
            paths: Paths::new_client(&dir),
            dry_run: false,
            keep_stale_files: keep,
            copy_file_blobs: true,
            ..Default::default()
        },
    )
    .await;
    if let Err(e) = res {
        rec.violate("C19", "C19/client/upgrade_failed", format!("upgrade_accounts on a closed, healthy account: {e}"));
        // go on with the file-system account
        let _ = world.devices[di].dev.open().await;
        return "err:upgrade".into();
    }
    rec.stats.count("c19.upgrades");
    world.devices[di].dev.kind = BackendKind::Db;
    if let Err(e) = world.devices[di].dev.open().await {
        rec.violate("C19", "C19/client/upgraded_account_does_not_open", format!("{e}"));
        return "err:open".into();
    }
    // ---- after
    match no::device_status(&world.devices[di].dev).await {
        Ok(st) => {
            let st_after = no::status_map(&st);
            for (k, v) in &st_before {
                match st_after.get(k) {
                    Some(w) if w == v => {}
                    Some(w) => rec.violate(
                        "C19",
                        &format!("C19/client/log_changed_by_upgrade/{}", no::log_kind(k)),
                        format!("{k}: root/length before {v:?} after {w:?}"),
                    ),
                    None => rec.violate(
                        "C19",
                        &format!("C19/client/log_lost_by_upgrade/{}", no::log_kind(k)),
                        format!("{k} ({v:?}) does not exist after the upgrade"),
                    ),
                }
            }
            for k in st_after.keys() {
                if !st_before.contains_key(k) {
                    rec.violate("C19", &format!("C19/client/log_added_by_upgrade/{}", no::log_kind(k)), k.clone());
                }
            }
        }
        Err(e) => rec.violate("C19", "C19/client/status_unreadable_after_upgrade", e),
    }
    match (persisted_before, world.devices[di].dev.snapshot().await) {
        (Some(before), Ok(after)) => {
            if let Some(d) = diff_snap(&before, &after) {
                rec.violate(
                    "C19",
                    "C19/client/served_after_upgrade_differs_from_file_system_account",
                    format!("a fresh file-system account served A, the upgraded database account serves B: {d}"),
                );
            }
            // the history continues from what is served now
            world.devices[di].dev.model.folders = after.clone();
            let folders = after;
            world.devices[di].dev.model.slots.retain(|_, (f, id)| folders.get(f).map(|x| x.secrets.contains_key(id)).unwrap_or(false));
        }
        (None, _) => rec.observe("c19: file-system account did not reopen before the upgrade"),
        (_, Err(e)) => rec.violate("C19", "C19/client/upgraded_account_unreadable", e),
    }
    let mut post = Recorder::default();
    no::check_replay_as(&mut world.devices[di].dev, &mut post, "upgrade", false, "C19").await;
    for v in post.violations {
        if !pre_sigs.contains(&v.signature.replace("/db/", "/*/")) {
            rec.violate("C19", &v.signature, v.detail);
        }
    }
    if let Some((g0, a0, s0)) = side_before {
        rec.stats.count("c19.side_tables_compared");
        let after = match db_target(&dir, &id).await {
            Ok(t) => read_side_tables(t, &id).await,
            Err(e) => Err(format!("{e}")),
        };
        match after {
            Ok((g1, a1, s1)) => {
                if g0 != g1 {
                    rec.violate("C19", "C19/client/global_preferences_changed", format!("before {g0:?} after {g1:?}"));
                }
                if a0 != a1 {
                    rec.violate("C19", "C19/client/account_preferences_changed", format!("before {a0:?} after {a1:?}"));
                }
                if s0 != s1 {
                    rec.violate("C19", "C19/client/server_list_changed", format!("before {s0:?} after {s1:?}"));
                }
            }
            Err(e) => rec.violate("C19", "C19/client/side_tables_unreadable_after_upgrade", e),
        }
    }
    if let Some((id2, st2_before)) = &second {
        match Device::open_existing(&format!("second-{di}"), &dir, BackendKind::Db, *id2, second_pw.to_string().into()).await {
            Ok(mut d2) => {
                match no::device_status(&d2).await.map(|s| no::status_map(&s)) {
                    Ok(st2_after) => {
                        if &st2_after != st2_before {
                            rec.violate(
                                "C19",
                                "C19/client/second_account/logs_changed_by_upgrade",
                                format!("second account {id2} in the same data directory: before {st2_before:?} after {st2_after:?}"),
                            );
                        }
                    }
                    Err(e) => rec.violate("C19", "C19/client/second_account/status_unreadable_after_upgrade", e),
                }
                d2.account = None;
                tokio::task::yield_now().await;
            }
            Err(e) => rec.violate(
                "C19",
                "C19/client/second_account/does_not_open_after_upgrade",
                format!("second account {id2} of the data directory: {e}"),
            ),
        }
        if let Some((g0, a0, s0)) = side2_before {
            let after = match db_target(&dir, id2).await {
                Ok(t) => read_side_tables(t, id2).await,
                Err(e) => Err(format!("{e}")),
            };
            match after {
                Ok((g1, a1, s1)) => {
                    if g0 != g1 {
                        rec.violate("C19", "C19/client/second_account/global_preferences_changed", format!("before {g0:?} after {g1:?}"));
                    }
                    if a0 != a1 {
                        rec.violate("C19", "C19/client/second_account/account_preferences_changed", format!("before {a0:?} after {a1:?}"));
                    }
                    if s0 != s1 {
                        rec.violate("C19", "C19/client/second_account/server_list_changed", format!("before {s0:?} after {s1:?}"));
                    }
                }
                Err(e) => rec.violate("C19", "C19/client/second_account/side_tables_unreadable_after_upgrade", e),
            }
        }
    }
    let trusted_after = trusted(&world.devices[di].dev).await;
    if trusted_after != trusted_before {
        rec.violate(
            "C19",
            "C19/client/trusted_devices_changed",
            format!("before {trusted_before:?} after {trusted_after:?}"),
        );
    }
    let blobs_after = blobs(&dir, &id, false);
    if blobs_after != blobs_before {
        let missing: Vec<&String> = blobs_before.keys().filter(|k| blobs_after.get(*k) != blobs_before.get(*k)).take(3).collect();
        rec.violate(
            "C19",
            "C19/client/attachments_changed",
            format!("external file blobs before {} after {}; missing or different: {missing:?}", blobs_before.len(), blobs_after.len()),
        );
    }
    rec.stats.count_n("c19.attachments_compared", blobs_before.len() as u64);
    // ---- still syncs
    if in_sync_before && world.devices[di].online.load(std::sync::atomic::Ordering::SeqCst) {
        rec.stats.probe("c19.upgraded_while_in_sync");
        let c = world.sync(di, rec).await;
        if c != "ok" {
            rec.violate(
                "C19",
                "C19/client/sync_after_upgrade_fails",
                format!("the device equalled its server before the upgrade; the first sync afterwards ends in {c}: {}", world.devices[di].last_err),
            );
        } else if let (Ok(a), Ok(b)) = (no::device_status(&world.devices[di].dev).await, no::server_status(world).await) {
            let (a, b) = (no::status_map(&a), no::status_map(&b));
            if a != b {
                rec.violate("C19", "C19/client/differs_from_server_after_upgrade_and_sync", format!("device {a:?} server {b:?}"));
            }
        }
    } else {
        rec.stats.probe("c19.upgraded_with_unsynced_state");
    }
    "ok".into()
}

pub async fn upgrade_server(world: &mut NetWorld, rec: &mut Recorder) -> String {
    if world.server.use_db {
        return "skip".into();
    }
    let id = world.devices[0].dev.account_id;
    let before = match no::server_status(world).await {
        Ok(s) => no::status_map(&s),
        Err(e) => return format!("err:{}", short_err(&e)),
    };
    let dir = world.server.dir.clone();
    let blobs_before = blobs(&dir, &id, true);
    // stop the server
    world.net.set_router(None);
    let tree_before = crate::archw::tree(&dir, Path::new("/nonexistent"));
    let dry = upgrade_accounts(
        &dir,
        UpgradeOptions { paths: Paths::new_server(&dir), dry_run: true, ..Default::default() },
    )
    .await;
    if crate::archw::tree(&dir, Path::new("/nonexistent")) != tree_before {
        rec.violate("C19", "C19/server/dry_run_changed_the_source", "a dry run changed the server's storage".into());
    }
    if let Err(e) = dry {
        rec.violate("C19", "C19/server/dry_run_failed", format!("{e}"));
    }
    let res = upgrade_accounts(
        &dir,
        UpgradeOptions { paths: Paths::new_server(&dir), dry_run: false, keep_stale_files: false, ..Default::default() },
    )
    .await;
    let use_db = match res {
        Ok(_) => true,
        Err(e) => {
            rec.violate("C19", "C19/server/upgrade_failed", format!("{e}"));
            false
        }
    };
    match SimServer::start(&dir, use_db, None).await {
        Ok(s2) => {
            world.net.set_router(Some(s2.router.clone()));
            world.server = s2;
        }
        Err(e) => {
            rec.violate("C19", "C19/server/does_not_start_after_upgrade", format!("{e}"));
            return "err:start".into();
        }
    }
    // every device talks to the new router through a fresh bridge
    for d in world.devices.iter_mut() {
        d.bridge = None;
    }
    rec.stats.count("c19.server_upgrades");
    match no::server_status(world).await {
        Ok(st) => {
            let after = no::status_map(&st);
            for (k, v) in &before {
                if after.get(k) != Some(v) {
                    rec.violate(
                        "C19",
                        &format!("C19/server/log_changed_by_upgrade/{}", no::log_kind(k)),
                        format!("{k}: before {v:?} after {:?}", after.get(k)),
                    );
                }
            }
        }
        Err(e) => rec.violate("C19", "C19/server/status_unreadable_after_upgrade", e),
    }
    let blobs_after = blobs(&dir, &id, true);
    if blobs_after != blobs_before {
        rec.violate(
            "C19",
            "C19/server/attachments_changed",
            format!("blobs before {} after {}", blobs_before.len(), blobs_after.len()),
        );
    }
    "ok".into()
}

//! Family `logw`: lock-step driver over the real event-log implementations
//! (`BackendEventLog::{FileSystem, Database}`) against a sequential model.
//!
//! Twelve co-resident logs (2 accounts x {identity, account, device, files,
//! folder0, folder1}) exist on *both* backends: one directory tree and one
//! sqlite file. Every step is applied to the same log on both backends and to
//! a per-backend model; after every step the touched log is read back through
//! the public API (forward and reverse streams, tree, a fresh instance after
//! `load_tree`) and *every other log* is checked to be unchanged.
//!
//! Decides C06 (faithfulness) and the log-level half of C07 (refusals change
//! nothing, checked patches are accepted iff the base matches).

use crate::common::*;
use crate::rng::Rng;
use futures::{pin_mut, StreamExt};
use serde_json::{json, Value};
use sos_backend::{
    AccountEventLog, BackendTarget, DeviceEventLog, FileEventLog,
    FolderEventLog,
};
use sos_core::{
    commit::{CommitHash, CommitProof, CommitTree},
    device::{DevicePublicKey, TrustedDevice},
    encode,
    events::{
        patch::{CheckedPatch, Diff, Patch},
        AccountEvent, DeviceEvent, EventLog, EventRecord, FileEvent,
        WriteEvent,
    },
    AccountId, ExternalFileName, Paths, SecretPath, UtcDateTime, VaultCommit,
    VaultEntry, VaultFlags, VaultId,
};
use sos_database::{
    async_sqlite::Client,
    entity::{AccountEntity, AccountRow, FolderEntity, FolderRow},
};
use sos_vault::Vault;
use std::path::Path;
use std::sync::Arc;

pub const N_ACCOUNTS: usize = 2;
pub const KINDS: [&str; 6] =
    ["identity", "account", "device", "files", "folder0", "folder1"];
const N_LOGS: usize = N_ACCOUNTS * 6;
const ALPHABET: u64 = 6;

// ------------------------------------------------------------------ generate

pub fn generate(property: &str, seed: u64, tier: Tier) -> Plan {
    let mut r = Rng::new(seed).fork("logw");
    let n_steps = match tier {
        Tier::Quick => r.range(10, 32),
        Tier::Thorough => r.range(10, 48),
    } as usize;
    let refusal_bias = property == "C07";
    // swarm: per-run weights
    let mut w = [
        8u64, // apply
        8,    // apply_records
        6,    // patch_checked
        3,    // patch_unchecked
        6,    // rewind
        1,    // clear
        3,    // replace_all
        2,    // compact
        3,    // reopen
        4,    // snap
    ];
    for x in w.iter_mut() {
        if r.chance(1, 5) {
            *x = 0;
        } else if r.chance(1, 4) {
            *x *= 3;
        }
    }
    if refusal_bias {
        w[2] = w[2].max(6) * 2;
        w[4] = w[4].max(4) * 2;
        w[6] = w[6].max(3) * 2;
        w[9] = w[9].max(4);
    }
    w[0] = w[0].max(2);
    // concentrate on few logs so that histories get deep, but always
    // co-resident siblings
    let focus: Vec<u64> = {
        let k = r.range(2, 5);
        (0..k).map(|_| r.below(N_LOGS as u64)).collect()
    };
    let mut steps = vec![];
    for _ in 0..n_steps {
        let log = if r.chance(4, 5) {
            *r.pick(&focus)
        } else {
            r.below(N_LOGS as u64)
        };
        let evs = |r: &mut Rng, max: u64| -> Vec<u64> {
            let n = r.range(1, max);
            (0..n).map(|_| r.below(ALPHABET)).collect()
        };
        let s = match r.weighted(&w) {
            0 => json!({"op":"apply","log":log,"events":evs(&mut r,3)}),
            1 => {
                let e = evs(&mut r, 4);
                let times: Vec<i64> = e
                    .iter()
                    .map(|_| match r.below(4) {
                        0 => 0,                              // tie
                        1 => -(r.range(1, 5000) as i64),     // behind
                        _ => r.range(1, 90_000_000_000) as i64,
                    })
                    .collect();
                json!({"op":"apply_records","log":log,"events":e,"times":times})
            }
            2 => {
                let proof = match r.below(if refusal_bias { 5 } else { 8 }) {
                    0 => json!({"kind":"saved","idx":r.below(8)}),
                    1 => json!({"kind":"sibling","log":r.below(N_LOGS as u64)}),
                    2 => json!({"kind":"forged"}),
                    3 => json!({"kind":"saved","idx":r.below(8)}),
                    _ => json!({"kind":"head"}),
                };
                json!({"op":"patch_checked","log":log,"proof":proof,"events":evs(&mut r,3)})
            }
            3 => json!({"op":"patch_unchecked","log":log,"events":evs(&mut r,3)}),
            4 => {
                if r.chance(1, 5) {
                    json!({"op":"rewind","log":log,"absent":true,"depth":0})
                } else {
                    json!({"op":"rewind","log":log,"absent":false,"depth":r.below(6)})
                }
            }
            5 => json!({"op":"clear","log":log}),
            6 => {
                let n = if r.chance(1, 8) { 0 } else { r.range(1, 4) };
                let e: Vec<u64> = (0..n).map(|_| r.below(ALPHABET)).collect();
                let good = if refusal_bias { r.chance(1, 3) } else { r.chance(2, 3) };
                let bad_kind = r.below(2);
                json!({"op":"replace_all","log":log,"events":e,"good":good,"bad_kind":bad_kind})
            }
            7 => {
                // only folder-shaped logs can be compacted
                let acct = r.below(N_ACCOUNTS as u64);
                let k = *r.pick(&[0u64, 4, 5]);
                json!({"op":"compact","log":acct*6+k})
            }
            8 => json!({"op":"reopen","log":log}),
            _ => json!({"op":"snap","log":log}),
        };
        steps.push(s);
    }
    Plan {
        family: "logw".into(),
        property: property.into(),
        seed,
        config: json!({"weights": w.to_vec(), "focus": focus}),
        steps,
    }
}

// --------------------------------------------------------------------- world

enum AnyLog {
    Acc(AccountEventLog),
    Dev(DeviceEventLog),
    File(FileEventLog),
    Fold(FolderEventLog),
}

macro_rules! on_log {
    ($l:expr, $x:ident => $e:expr) => {
        match $l {
            AnyLog::Acc($x) => $e,
            AnyLog::Dev($x) => $e,
            AnyLog::File($x) => $e,
            AnyLog::Fold($x) => $e,
        }
    };
}

#[derive(Clone, PartialEq, Eq)]
struct Rec {
    time: UtcDateTime,
    commit: CommitHash,
    bytes: Vec<u8>,
}

impl Rec {
    fn of(r: &EventRecord) -> Rec {
        Rec {
            time: r.time().clone(),
            commit: *r.commit(),
            bytes: r.event_bytes().to_vec(),
        }
    }
    fn short(&self) -> String {
        format!(
            "{}@{}",
            &hex::encode(self.commit.0)[..6],
            self.time.to_rfc3339().unwrap_or_default()
        )
    }
}

fn seq_str(v: &[Rec]) -> String {
    v.iter().map(|r| r.short()).collect::<Vec<_>>().join(",")
}

struct Ids {
    accounts: Vec<AccountId>,
    identity: Vec<VaultId>,
    folders: Vec<[VaultId; 2]>,
}

struct Alphabets {
    acc: Vec<AccountEvent>,
    dev: Vec<DeviceEvent>,
    file: Vec<FileEvent>,
    fold: Vec<WriteEvent>,
}

fn fixed_uuid(tag: u8, n: u8) -> uuid::Uuid {
    let mut b = [0x11u8; 16];
    b[0] = tag;
    b[15] = n;
    // make it a valid v4-looking uuid
    b[6] = 0x40 | (b[6] & 0x0f);
    b[8] = 0x80 | (b[8] & 0x3f);
    uuid::Uuid::from_bytes(b)
}

async fn vault_bytes(id: VaultId, name: &str) -> (Vault, Vec<u8>) {
    let mut v = Vault::default();
    *v.header_mut().id_mut() = id;
    v.set_name(name.to_string());
    let b = encode(&v).await.expect("encode vault");
    (v, b)
}

async fn alphabets() -> Alphabets {
    // tiny alphabets shared by every log of a type, so byte-identical events
    // recur within a log and across co-resident logs
    let s1 = fixed_uuid(0xA1, 1);
    let s2 = fixed_uuid(0xA1, 2);
    let f1 = fixed_uuid(0xF0, 1);
    let entry = VaultEntry(Default::default(), Default::default());
    let eb = encode(&entry).await.expect("encode entry");
    let vc = VaultCommit(CommitHash(CommitTree::hash(&eb)), entry);
    let (_, vb) = vault_bytes(f1, "alpha").await;
    let fold = vec![
        WriteEvent::CreateSecret(s1, vc.clone()),
        WriteEvent::UpdateSecret(s1, vc.clone()),
        WriteEvent::DeleteSecret(s1),
        WriteEvent::SetVaultName("n1".into()),
        WriteEvent::CreateSecret(s2, vc.clone()),
        WriteEvent::SetVaultFlags(VaultFlags::default()),
    ];
    let acc = vec![
        AccountEvent::RenameAccount("acct-a".into()),
        AccountEvent::RenameAccount("acct-b".into()),
        AccountEvent::CreateFolder(f1, vb.clone()),
        AccountEvent::RenameFolder(f1, "x".into()),
        AccountEvent::DeleteFolder(f1),
        AccountEvent::UpdateFolder(f1, vb),
    ];
    let k1: DevicePublicKey = [7u8; 32].into();
    let k2: DevicePublicKey = [9u8; 32].into();
    let when = time::OffsetDateTime::from_unix_timestamp(1_600_000_000).unwrap();
    let dev = vec![
        DeviceEvent::Trust(TrustedDevice::new(k1, Some(Default::default()), Some(when))),
        DeviceEvent::Revoke(k1),
        DeviceEvent::Trust(TrustedDevice::new(k2, Some(Default::default()), Some(when))),
        DeviceEvent::Revoke(k2),
        DeviceEvent::Revoke(k1),
        DeviceEvent::Trust(TrustedDevice::new(k1, Some(Default::default()), Some(when))),
    ];
    let n1: ExternalFileName = [3u8; 32].into();
    let n2: ExternalFileName = [4u8; 32].into();
    let p1 = SecretPath(f1, s1);
    let p2 = SecretPath(f1, s2);
    let file = vec![
        FileEvent::CreateFile(p1, n1),
        FileEvent::DeleteFile(p1, n1),
        FileEvent::CreateFile(p2, n2),
        FileEvent::MoveFile { name: n1, from: p1, dest: p2 },
        FileEvent::DeleteFile(p2, n2),
        FileEvent::CreateFile(p1, n1),
    ];
    Alphabets { acc, dev, file, fold }
}

struct Backend {
    name: &'static str,
    target: BackendTarget,
    logs: Vec<AnyLog>,
    model: Vec<Vec<Rec>>,
    resynced: bool,
}

async fn open_log(target: &BackendTarget, ids: &Ids, l: usize) -> anyhow::Result<AnyLog> {
    let a = l / 6;
    let acct = &ids.accounts[a];
    Ok(match l % 6 {
        0 => AnyLog::Fold(FolderEventLog::new_login_folder(target.clone(), acct).await?),
        1 => AnyLog::Acc(AccountEventLog::new_account(target.clone(), acct).await?),
        2 => AnyLog::Dev(DeviceEventLog::new_device(target.clone(), acct).await?),
        3 => AnyLog::File(FileEventLog::new_file(target.clone(), acct).await?),
        k => AnyLog::Fold(
            FolderEventLog::new_folder(target.clone(), acct, &ids.folders[a][k - 4]).await?,
        ),
    })
}

async fn read_stream(log: &AnyLog, reverse: bool) -> Result<Vec<Rec>, String> {
    let mut out = vec![];
    on_log!(log, x => {
        let stream = x.record_stream(reverse).await;
        pin_mut!(stream);
        while let Some(r) = stream.next().await {
            match r {
                Ok(r) => out.push(Rec::of(&r)),
                Err(e) => return Err(format!("{e}")),
            }
        }
    });
    Ok(out)
}

fn tree_of(log: &AnyLog) -> &CommitTree {
    on_log!(log, x => x.tree())
}

fn model_tree(m: &[Rec]) -> CommitTree {
    let mut t = CommitTree::new();
    let mut leaves: Vec<[u8; 32]> = m.iter().map(|r| r.commit.0).collect();
    t.append(&mut leaves);
    t.commit();
    t
}

struct World {
    ids: Ids,
    alpha: Alphabets,
    backends: Vec<Backend>,
    /// saved (proof, commit sequence it was taken from), shared by both backends
    saved: Vec<(CommitProof, Vec<CommitHash>)>,
}

async fn setup(dir: &Path) -> anyhow::Result<World> {
    let mut accounts = vec![];
    let mut identity = vec![];
    let mut folders = vec![];
    for a in 0..N_ACCOUNTS {
        let mut b = [0u8; 20];
        b[0] = 0xAC;
        b[19] = a as u8 + 1;
        accounts.push(AccountId::from(b));
        identity.push(fixed_uuid(0x1D, a as u8));
        folders.push([fixed_uuid(0xF0, (a * 2) as u8 + 1), fixed_uuid(0xF0, (a * 2) as u8 + 2)]);
    }
    let ids = Ids { accounts, identity, folders };

    // file-system backend
    let fs_dir = dir.join("fs");
    std::fs::create_dir_all(&fs_dir)?;
    let fs_paths = Paths::new_client(&fs_dir);
    Paths::scaffold(fs_paths.documents_dir()).await?;
    for a in &ids.accounts {
        fs_paths.with_account_id(a).ensure().await?;
    }
    let fs_target = BackendTarget::FileSystem(fs_paths);

    // database backend: one sqlite file for everything
    let db_dir = dir.join("db");
    std::fs::create_dir_all(&db_dir)?;
    let db_paths = Paths::new_client(&db_dir);
    let mut client: Client = sos_database::open_file(db_paths.database_file()).await?;
    sos_database::migrations::migrate_client(&mut client).await?;
    for (a, acct) in ids.accounts.iter().enumerate() {
        let row = AccountRow::new_insert(acct, format!("acct{a}"))?;
        let mut idv = Vault::default();
        *idv.header_mut().id_mut() = ids.identity[a];
        idv.flags_mut().set(VaultFlags::IDENTITY, true);
        let idrow = FolderRow::new_insert(&idv).await?;
        let mut frows = vec![];
        for f in &ids.folders[a] {
            let (v, _) = vault_bytes(*f, "alpha").await;
            frows.push(FolderRow::new_insert(&v).await?);
        }
        client
            .conn_mut(move |conn| {
                let ae = AccountEntity::new(&conn);
                let aid = ae.insert(&row)?;
                let fe = FolderEntity::new(&conn);
                let lid = fe.insert_folder(aid, &idrow)?;
                ae.insert_login_folder(aid, lid)?;
                for fr in &frows {
                    fe.insert_folder(aid, fr)?;
                }
                Ok(())
            })
            .await?;
    }
    let db_target = BackendTarget::Database(db_paths, client);

    let mut backends = vec![];
    for (name, target) in [("fs", fs_target), ("db", db_target)] {
        let mut logs = vec![];
        for l in 0..N_LOGS {
            logs.push(open_log(&target, &ids, l).await?);
        }
        backends.push(Backend {
            name,
            target,
            logs,
            model: vec![vec![]; N_LOGS],
            resynced: false,
        });
    }
    Ok(World { ids, alpha: alphabets().await, backends, saved: vec![] })
}

fn log_name(l: usize) -> String {
    format!("a{}.{}", l / 6, KINDS[l % 6])
}

/// Build event records (time = now) for alphabet indices of log `l`.
async fn records_for(w: &World, l: usize, evs: &[u64]) -> Vec<EventRecord> {
    let mut out = vec![];
    for e in evs {
        let i = (*e % ALPHABET) as usize;
        let r = match l % 6 {
            1 => EventRecord::encode_event(&w.alpha.acc[i]).await,
            2 => EventRecord::encode_event(&w.alpha.dev[i]).await,
            3 => EventRecord::encode_event(&w.alpha.file[i]).await,
            _ => EventRecord::encode_event(&w.alpha.fold[i]).await,
        };
        out.push(r.expect("encode event"));
    }
    out
}

fn ev_list(s: &Value) -> Vec<u64> {
    s.get("events")
        .and_then(|v| v.as_array())
        .map(|a| a.iter().filter_map(|x| x.as_u64()).collect())
        .unwrap_or_default()
}

/// Outcome class of one backend for one step.
#[derive(Clone, PartialEq, Eq, Debug)]
enum Out {
    Ok,
    Success,
    Conflict,
    Err(String),
    Skip,
}

impl Out {
    fn class(&self) -> String {
        match self {
            Out::Ok => "ok".into(),
            Out::Success => "success".into(),
            Out::Conflict => "conflict".into(),
            Out::Err(_) => "err".into(),
            Out::Skip => "skip".into(),
        }
    }
}

// ------------------------------------------------------------------- execute

pub async fn execute(plan: Plan, dir: &Path) -> RunOutcome {
    let mut rec = Recorder::default();
    let mut w = match setup(dir).await {
        Ok(w) => w,
        Err(e) => {
            let mut o = rec.finish(plan);
            o.harness_error = Some(format!("setup: {e}"));
            return o;
        }
    };

    // every folder-shaped log starts with its CreateVault event (as in a real
    // account); account logs start empty
    for l in 0..N_LOGS {
        let k = l % 6;
        if k == 0 || k >= 4 {
            let a = l / 6;
            let id = if k == 0 { w.ids.identity[a] } else { w.ids.folders[a][k - 4] };
            let (_, vb) = vault_bytes(id, "alpha").await;
            let ev = WriteEvent::CreateVault(vb);
            let mut r = EventRecord::encode_event(&ev).await.expect("encode");
            r.set_time(base_time(0));
            for b in w.backends.iter_mut() {
                if let AnyLog::Fold(x) = &mut b.logs[l] {
                    x.apply_records(vec![r.clone()]).await.expect("init log");
                }
                b.model[l].push(Rec::of(&r));
            }
        }
    }

    let prop = plan.property.clone();
    let steps = plan.steps.clone();
    let mut mutated_ok = 0u64;
    for (idx, s) in steps.iter().enumerate() {
        rec.step = idx;
        let opn = jstr(s, "op");
        let l = jusize(s, "log") % N_LOGS;
        let evs = ev_list(s);

        // step inputs that are shared by both backends
        let t0 = UtcDateTime::default();
        let mut shared_records: Vec<EventRecord> = vec![];
        match opn.as_str() {
            "apply_records" | "patch_checked" | "patch_unchecked" | "replace_all" => {
                shared_records = records_for(&w, l, &evs).await;
                if opn == "apply_records" {
                    let times: Vec<i64> = s
                        .get("times")
                        .and_then(|v| v.as_array())
                        .map(|a| a.iter().filter_map(|x| x.as_i64()).collect())
                        .unwrap_or_default();
                    let last = w.backends[0].model[l]
                        .last()
                        .map(|r| r.time.clone())
                        .unwrap_or_else(|| base_time(0));
                    let mut cur: time::OffsetDateTime = last.into();
                    for (i, r) in shared_records.iter_mut().enumerate() {
                        let d = times.get(i).copied().unwrap_or(1);
                        cur += time::Duration::nanoseconds(d);
                        r.set_time(cur.into());
                    }
                }
            }
            _ => {}
        }

        // proof shared by both backends for patch_checked / replace_all
        let mut proof: Option<(CommitProof, Option<Vec<CommitHash>>)> = None;
        if opn == "patch_checked" {
            let p = s.get("proof").cloned().unwrap_or(json!({"kind":"head"}));
            let kind = jstr(&p, "kind");
            let cur: Vec<CommitHash> =
                w.backends[0].model[l].iter().map(|r| r.commit).collect();
            proof = match kind.as_str() {
                "saved" if !w.saved.is_empty() => {
                    let i = jusize(&p, "idx") % w.saved.len();
                    Some((w.saved[i].0.clone(), Some(w.saved[i].1.clone())))
                }
                "sibling" => {
                    let o = jusize(&p, "log") % N_LOGS;
                    let seq: Vec<CommitHash> =
                        w.backends[0].model[o].iter().map(|r| r.commit).collect();
                    model_tree(&w.backends[0].model[o]).head().ok().map(|h| (h, Some(seq)))
                }
                "forged" => model_tree(&w.backends[0].model[l]).head().ok().map(|mut h| {
                    h.root.0[0] ^= 0x80;
                    (h, None)
                }),
                _ => model_tree(&w.backends[0].model[l]).head().ok().map(|h| (h, Some(cur))),
            };
            if proof.is_none() {
                // no head exists (empty log): use a forged proof from a 1-leaf tree
                let mut t = CommitTree::new();
                t.insert([0x5a; 32]);
                t.commit();
                proof = t.head().ok().map(|h| (h, None));
            }
        }
        if opn == "snap" {
            let seq: Vec<CommitHash> =
                w.backends[0].model[l].iter().map(|r| r.commit).collect();
            if let Ok(h) = model_tree(&w.backends[0].model[l]).head() {
                if w.saved.len() < 8 {
                    w.saved.push((h, seq));
                } else {
                    let i = idx % 8;
                    w.saved[i] = (h, seq);
                }
            }
        }

        let mut outs: Vec<Out> = vec![];
        let nb = w.backends.len();
        for bi in 0..nb {
            let before: Vec<Rec> = w.backends[bi].model[l].clone();
            let bname = w.backends[bi].name;
            let mut expect_after: Option<Vec<Rec>> = None; // None = adopt actual
            let mut refused = false;
            let out: Out = match opn.as_str() {
                "apply" => {
                    // typed `apply`: timestamps are taken inside, learn them back
                    let idxs: Vec<usize> =
                        evs.iter().map(|e| (*e % ALPHABET) as usize).collect();
                    let r = match &mut w.backends[bi].logs[l] {
                        AnyLog::Acc(x) => {
                            let e: Vec<_> = idxs.iter().map(|i| w.alpha.acc[*i].clone()).collect();
                            x.apply(&e).await.map_err(|e| e.to_string())
                        }
                        AnyLog::Dev(x) => {
                            let e: Vec<_> = idxs.iter().map(|i| w.alpha.dev[*i].clone()).collect();
                            x.apply(&e).await.map_err(|e| e.to_string())
                        }
                        AnyLog::File(x) => {
                            let e: Vec<_> = idxs.iter().map(|i| w.alpha.file[*i].clone()).collect();
                            x.apply(&e).await.map_err(|e| e.to_string())
                        }
                        AnyLog::Fold(x) => {
                            let e: Vec<_> = idxs.iter().map(|i| w.alpha.fold[*i].clone()).collect();
                            x.apply(&e).await.map_err(|e| e.to_string())
                        }
                    };
                    match r {
                        Ok(()) => {
                            // expected commits/bytes; times learned from storage but bounded
                            let exp = records_for(&w, l, &evs).await;
                            let t1 = UtcDateTime::default();
                            let actual = read_stream(&w.backends[bi].logs[l], false)
                                .await
                                .unwrap_or_default();
                            let mut after = before.clone();
                            let n0 = before.len();
                            for (i, e) in exp.iter().enumerate() {
                                let mut rr = Rec::of(e);
                                if let Some(a) = actual.get(n0 + i) {
                                    if a.time >= t0 && a.time <= t1 {
                                        rr.time = a.time.clone();
                                    }
                                }
                                after.push(rr);
                            }
                            expect_after = Some(after);
                            Out::Ok
                        }
                        Err(e) => {
                            expect_after = Some(before.clone());
                            Out::Err(e)
                        }
                    }
                }
                "apply_records" | "patch_unchecked" => {
                    let recs = shared_records.clone();
                    let r: Result<(), String> = on_log!(&mut w.backends[bi].logs[l], x => {
                        if opn == "apply_records" {
                            x.apply_records(recs.clone()).await.map_err(|e| e.to_string())
                        } else {
                            x.patch_unchecked(&Patch::new(recs.clone())).await.map_err(|e| e.to_string())
                        }
                    });
                    match r {
                        Ok(()) => {
                            let mut after = before.clone();
                            after.extend(recs.iter().map(Rec::of));
                            expect_after = Some(after);
                            Out::Ok
                        }
                        Err(e) => {
                            expect_after = Some(before.clone());
                            Out::Err(e)
                        }
                    }
                }
                "patch_checked" => {
                    let (pf, base) = proof.clone().expect("proof");
                    let recs = shared_records.clone();
                    let cur: Vec<CommitHash> = before.iter().map(|r| r.commit).collect();
                    let base_matches = base.as_ref().map(|b| *b == cur).unwrap_or(false);
                    let r: Result<CheckedPatch, String> = on_log!(&mut w.backends[bi].logs[l], x => {
                        x.patch_checked(&pf, &Patch::new(recs.clone())).await.map_err(|e| e.to_string())
                    });
                    match r {
                        Ok(CheckedPatch::Success(_)) => {
                            rec.stats.probe("patch_success");
                            if !base_matches {
                                rec.violate(
                                    "C07",
                                    &format!("C07/{bname}/patch_checked/accepted_on_wrong_base"),
                                    format!("log {} accepted a checked patch although its record sequence [{}] is not the sequence the checkpoint was taken from", log_name(l), seq_str(&before)),
                                );
                            }
                            let mut after = before.clone();
                            after.extend(recs.iter().map(Rec::of));
                            expect_after = Some(after);
                            Out::Success
                        }
                        Ok(CheckedPatch::Conflict { .. }) => {
                            rec.stats.probe("patch_conflict");
                            if base_matches {
                                rec.violate(
                                    "C07",
                                    &format!("C07/{bname}/patch_checked/refused_on_matching_base"),
                                    format!("log {} refused a checked patch whose checkpoint was taken from exactly its current sequence [{}]", log_name(l), seq_str(&before)),
                                );
                            }
                            refused = true;
                            expect_after = Some(before.clone());
                            Out::Conflict
                        }
                        Err(e) => {
                            refused = true;
                            expect_after = Some(before.clone());
                            Out::Err(e)
                        }
                    }
                }
                "rewind" => {
                    let absent = jbool(s, "absent");
                    let depth = jusize(s, "depth");
                    let target: Option<(usize, CommitHash)> = if absent || before.is_empty() {
                        None
                    } else {
                        let d = depth.min(before.len() - 1);
                        let pos = before.len() - 1 - d;
                        Some((pos, before[pos].commit))
                    };
                    let commit = target.map(|t| t.1).unwrap_or(CommitHash([0xEE; 32]));
                    let r: Result<Vec<EventRecord>, String> = on_log!(&mut w.backends[bi].logs[l], x => {
                        x.rewind(&commit).await.map_err(|e| e.to_string())
                    });
                    match (r, target) {
                        (Ok(removed), Some((_pos, c))) => {
                            // the log is cut after the LAST occurrence of the target
                            let last = before.iter().rposition(|r| r.commit == c).unwrap();
                            let after: Vec<Rec> = before[..=last].to_vec();
                            let cut: Vec<Rec> = before[last + 1..].to_vec();
                            if cut.len() > 1 {
                                rec.stats.probe("rewind_multi");
                            }
                            // returned records must be exactly the removed ones (either order)
                            let mut got: Vec<Rec> = removed.iter().map(Rec::of).collect();
                            let fwd = got == cut;
                            got.reverse();
                            let bwd = got == cut;
                            if !(fwd || bwd) {
                                rec.violate(
                                    "C06",
                                    &format!("C06/{bname}/rewind/returned_records_wrong"),
                                    format!("rewind of {} returned [{}] but removed [{}]", log_name(l), seq_str(&got), seq_str(&cut)),
                                );
                            }
                            expect_after = Some(after);
                            Out::Ok
                        }
                        (Ok(_), None) => {
                            // rewound to a commit that is not in the log
                            if true {
                                rec.violate(
                                    "C07",
                                    &format!("C07/{bname}/rewind/absent_target_accepted"),
                                    format!("rewind of {} to an absent commit succeeded", log_name(l)),
                                );
                            }
                            Out::Ok
                        }
                        (Err(e), t) => {
                            if t.is_none() {
                                rec.stats.probe("rewind_absent");
                            } else if true {
                                rec.violate(
                                    "C06",
                                    &format!("C06/{bname}/rewind/present_target_failed"),
                                    format!("rewind of {} to a commit that is in the log failed: {e}; sequence [{}]", log_name(l), seq_str(&before)),
                                );
                            }
                            refused = true;
                            expect_after = Some(before.clone());
                            Out::Err(e)
                        }
                    }
                }
                "clear" => {
                    let r: Result<(), String> = on_log!(&mut w.backends[bi].logs[l], x => {
                        x.clear().await.map_err(|e| e.to_string())
                    });
                    match r {
                        Ok(()) => {
                            expect_after = Some(vec![]);
                            Out::Ok
                        }
                        Err(e) => {
                            expect_after = Some(before.clone());
                            Out::Err(e)
                        }
                    }
                }
                "replace_all" => {
                    let recs = shared_records.clone();
                    let good = jbool(s, "good");
                    let new_model: Vec<Rec> = recs.iter().map(Rec::of).collect();
                    let checkpoint: CommitProof = if good && !recs.is_empty() {
                        model_tree(&new_model).head().expect("head")
                    } else if jusize(s, "bad_kind") == 0 && !before.is_empty() {
                        // stale: head of the current log (differs from the new content
                        // unless the content happens to be identical)
                        model_tree(&before).head().expect("head")
                    } else {
                        let mut t = CommitTree::new();
                        t.insert([0x77; 32]);
                        t.commit();
                        t.head().expect("head")
                    };
                    let really_good = !recs.is_empty()
                        && model_tree(&new_model).head().map(|h| h == checkpoint).unwrap_or(false);
                    let diff_res: Result<(), String> = on_log!(&mut w.backends[bi].logs[l], x => {
                        let diff = Diff::new(Patch::new(recs.clone()), checkpoint.clone(), None);
                        x.replace_all_events(&diff).await.map_err(|e| e.to_string())
                    });
                    match diff_res {
                        Ok(()) if recs.is_empty() => {
                            // degenerate request (nothing to replace with): the only
                            // acceptable success is a no-op on a log whose head already
                            // equals the checkpoint
                            rec.stats.probe("replace_all_empty");
                            refused = true;
                            expect_after = Some(before.clone());
                            Out::Ok
                        }
                        Ok(()) => {
                            rec.stats.probe("replace_all_ok");
                            if !really_good {
                                rec.violate(
                                    "C07",
                                    &format!("C07/{bname}/replace_all_events/accepted_wrong_checkpoint"),
                                    format!("replace_all_events on {} succeeded although the checkpoint does not match the new content", log_name(l)),
                                );
                            }
                            expect_after = Some(new_model);
                            Out::Ok
                        }
                        Err(e) => {
                            rec.stats.probe("replace_all_refused");
                            if really_good {
                                rec.violate(
                                    "C06",
                                    &format!("C06/{bname}/replace_all_events/valid_diff_failed"),
                                    format!("replace_all_events on {} with a matching checkpoint failed: {e}", log_name(l)),
                                );
                            }
                            refused = true;
                            expect_after = Some(before.clone());
                            Out::Err(e)
                        }
                    }
                }
                "compact" => {
                    let a = l / 6;
                    let k = l % 6;
                    let acct = w.ids.accounts[a];
                    let fid = if k == 0 { w.ids.identity[a] } else { w.ids.folders[a][(k.max(4)) - 4] };
                    // compaction is only reachable through the account API for a
                    // folder log that starts with its CreateVault event
                    let compactable = first_is_create_vault(&before).await;
                    let r: Result<(), String> = match &mut w.backends[bi].logs[l] {
                        _ if !compactable => Err("skipped: not a compactable log".into()),
                        AnyLog::Fold(x) => sos_backend::compact::compact_folder(&acct, &fid, x)
                            .await
                            .map_err(|e| e.to_string()),
                        _ => Err("not a folder log".into()),
                    };
                    match r {
                        Ok(()) => {
                            rec.stats.probe("compact_ok");
                            expect_after = None; // adopt, then check faithfulness
                            Out::Ok
                        }
                        Err(e) => {
                            refused = true;
                            expect_after = Some(before.clone());
                            Out::Err(e)
                        }
                    }
                }
                "reopen" => {
                    rec.stats.probe("reopen");
                    let target = w.backends[bi].target.clone();
                    match open_log(&target, &w.ids, l).await {
                        Ok(mut fresh) => {
                            let r: Result<(), String> = on_log!(&mut fresh, x => x.load_tree().await.map_err(|e| e.to_string()));
                            match r {
                                Ok(()) => {
                                    w.backends[bi].logs[l] = fresh;
                                    expect_after = Some(before.clone());
                                    Out::Ok
                                }
                                Err(e) => {
                                    if true {
                                        rec.violate(
                                            "C06",
                                            &format!("C06/{bname}/reopen/load_tree_failed"),
                                            format!("load_tree of {} failed: {e}", log_name(l)),
                                        );
                                    }
                                    expect_after = Some(before.clone());
                                    Out::Err(e)
                                }
                            }
                        }
                        Err(e) => Out::Err(e.to_string()),
                    }
                }
                "snap" => {
                    expect_after = Some(before.clone());
                    Out::Skip
                }
                _ => Out::Skip,
            };

            // ------------------------------------------------ oracles
            let b = &mut w.backends[bi];
            let fwd = read_stream(&b.logs[l], false).await;
            let bwd = read_stream(&b.logs[l], true).await;
            let (fwd, bwd) = match (fwd, bwd) {
                (Ok(f), Ok(r)) => (f, r),
                (f, r) => {
                    if true {
                        rec.violate(
                            "C06",
                            &format!("C06/{bname}/{opn}/stream_error"),
                            format!("reading {} after {opn} failed: fwd={:?} bwd={:?}", log_name(l), f.err(), r.err()),
                        );
                    }
                    b.resynced = true;
                    outs.push(out);
                    continue;
                }
            };
            let mut rb = bwd.clone();
            rb.reverse();
            if rb != fwd {
                rec.violate(
                    "C06",
                    &format!("C06/{bname}/reverse_not_mirror"),
                    format!("{}: forward [{}] reverse [{}]", log_name(l), seq_str(&fwd), seq_str(&bwd)),
                );
            }
            for r in &fwd {
                if CommitTree::hash(&r.bytes) != r.commit.0 {
                    rec.violate(
                        "C06",
                        &format!("C06/{bname}/commit_not_sha256_of_event"),
                        format!("{}: record {} does not hash to its commit", log_name(l), r.short()),
                    );
                }
            }
            let expect = expect_after.clone().unwrap_or_else(|| fwd.clone());
            if fwd != expect {
                let (p, sig) = if refused {
                    ("C07", format!("C07/{bname}/{opn}/refused_but_log_changed"))
                } else {
                    ("C06", format!("C06/{bname}/{opn}/storage_differs_from_model"))
                };
                let only_time = fwd.len() == expect.len()
                    && fwd.iter().zip(expect.iter()).all(|(a, e)| a.commit == e.commit && a.bytes == e.bytes);
                let sig = if only_time { format!("{sig}/timestamps") } else { sig };
                rec.violate(
                    p,
                    &sig,
                    format!("{} {} outcome={:?}: expected [{}] stored [{}]", opn, log_name(l), out, seq_str(&expect), seq_str(&fwd)),
                );
                b.resynced = true;
            }
            // in-memory tree vs storage vs model
            {
                let t = tree_of(&b.logs[l]);
                let leaves = t.leaves().unwrap_or_default();
                let stored: Vec<[u8; 32]> = fwd.iter().map(|r| r.commit.0).collect();
                let mt = model_tree(&fwd);
                if leaves != stored || t.root() != mt.root() || t.len() != fwd.len() {
                    let sig = if refused {
                        format!("C07/{bname}/{opn}/refused_but_tree_changed")
                    } else {
                        format!("C06/{bname}/{opn}/tree_differs_from_storage")
                    };
                    rec.violate(
                        if refused { "C07" } else { "C06" },
                        &sig,
                        format!("{} {}: tree has {} leaves root {:?}; storage has {} records root {:?}", opn, log_name(l), leaves.len(), t.root(), fwd.len(), mt.root()),
                    );
                    b.resynced = true;
                }
                if opn != "snap" {
                    // a fresh instance must rebuild the same tree
                    if let Ok(mut fresh) = open_log(&b.target, &w.ids, l).await {
                        let r: Result<(), String> = on_log!(&mut fresh, x => x.load_tree().await.map_err(|e| e.to_string()));
                        let ft = tree_of(&fresh);
                        if r.is_err() || ft.leaves().unwrap_or_default() != stored || ft.root() != mt.root() {
                            rec.violate(
                                "C06",
                                &format!("C06/{bname}/{opn}/reopened_tree_differs"),
                                format!("{} {}: fresh instance after load_tree: {:?} leaves={} expected {}", opn, log_name(l), r.err(), ft.len(), stored.len()),
                            );
                        }
                    }
                }
            }
            // every other log untouched
            if opn != "snap" && opn != "reopen" {
                for o in 0..N_LOGS {
                    if o == l {
                        continue;
                    }
                    let got = read_stream(&b.logs[o], false).await.unwrap_or_default();
                    if got != b.model[o] {
                        let same_table = match (l % 6, o % 6) {
                            (x, y) if (x == 0 || x >= 4) && (y == 0 || y >= 4) => true,
                            (x, y) => x == y,
                        };
                        if same_table {
                            rec.stats.probe("other_log_same_table_changed");
                        }
                        rec.violate(
                            "C06",
                            &format!("C06/{bname}/{opn}/other_log_changed"),
                            format!("{opn} on {} changed {}: was [{}] now [{}]", log_name(l), log_name(o), seq_str(&b.model[o]), seq_str(&got)),
                        );
                        b.model[o] = got;
                        b.resynced = true;
                        if let Ok(mut fresh) = open_log(&b.target, &w.ids, o).await {
                            let r: Result<(), String> = on_log!(&mut fresh, x => x.load_tree().await.map_err(|e| e.to_string()));
                            if r.is_ok() {
                                b.logs[o] = fresh;
                            }
                        }
                    } else if got != b.model[o] {
                        b.model[o] = got;
                    }
                }
            }
            // adopt what is stored (== expected unless a violation was recorded)
            b.model[l] = fwd;
            if b.resynced {
                // after a violation: bring the live instance back in line with
                // storage so that later steps are checked from a sane state
                if let Ok(mut fresh) = open_log(&b.target, &w.ids, l).await {
                    let r: Result<(), String> = on_log!(&mut fresh, x => x.load_tree().await.map_err(|e| e.to_string()));
                    if r.is_ok() {
                        b.logs[l] = fresh;
                    }
                }
            }
            if matches!(out, Out::Ok | Out::Success) && opn != "reopen" && opn != "snap" {
                mutated_ok += 1;
            }
            outs.push(out);
        }

        // duplicates probes (on the fs model; both are equal unless resynced)
        {
            let m = &w.backends[0].model;
            let cs: Vec<CommitHash> = m[l].iter().map(|r| r.commit).collect();
            let mut seen = std::collections::BTreeSet::new();
            if cs.iter().any(|c| !seen.insert(c.0)) {
                rec.stats.probe("dup_commit_in_log");
            }
            for o in 0..N_LOGS {
                if o != l && m[o].iter().any(|r| seen.contains(&r.commit.0)) {
                    rec.stats.probe("dup_commit_across_logs");
                    break;
                }
            }
        }

        // both backends must answer alike
        let any_resync = w.backends.iter().any(|b| b.resynced);
        if outs.len() == 2 && !any_resync {
            if outs[0].class() != outs[1].class() {
                rec.violate(
                    "C06",
                    &format!("C06/cross_backend/{opn}/outcome_differs"),
                    format!("{opn} on {}: fs={:?} db={:?}", log_name(l), outs[0], outs[1]),
                );
            }
            let a: Vec<_> = w.backends[0].model[l].iter().map(|r| (r.commit, r.bytes.clone())).collect();
            let b: Vec<_> = w.backends[1].model[l].iter().map(|r| (r.commit, r.bytes.clone())).collect();
            if a != b {
                rec.violate(
                    "C06",
                    &format!("C06/cross_backend/{opn}/content_differs"),
                    format!("{opn} on {}: fs [{}] db [{}]", log_name(l), seq_str(&w.backends[0].model[l]), seq_str(&w.backends[1].model[l])),
                );
            }
            if opn != "apply" && opn != "compact" {
                let ta: Vec<_> = w.backends[0].model[l].iter().map(|r| r.time.clone()).collect();
                let tb: Vec<_> = w.backends[1].model[l].iter().map(|r| r.time.clone()).collect();
                let apply_tainted = false;
                if ta != tb && !apply_tainted {
                    // times may legitimately differ only for records created by `apply`/`compact`
                    rec.stats.probe("cross_backend_time_diff");
                }
            }
        }
        let class = outs.iter().map(|o| o.class()).collect::<Vec<_>>().join("/");
        let detail = match outs.first() {
            Some(Out::Err(e)) => e.chars().take(60).collect::<String>(),
            _ => String::new(),
        };
        rec.step(idx, &format!("{opn}:{}", KINDS[l % 6]), &class, &format!("{} n={} {}", log_name(l), w.backends[0].model[l].len(), detail));
        rec.observe(&seq_str(&w.backends[0].model[l]));
        rec.observe(&seq_str(&w.backends[1].model[l]));
        let _ = prop;
    }
    rec.stats.count_n("mutations_ok", mutated_ok);
    rec.stats.sim_time_s =
        (crate::interpose::clock_now() - crate::interpose::CLOCK_BASE_NS) as f64 / 1e9;
    drop(w);
    rec.finish(plan)
}

async fn first_is_create_vault(m: &[Rec]) -> bool {
    match m.first() {
        Some(r) => matches!(
            sos_core::decode::<WriteEvent>(&r.bytes).await,
            Ok(WriteEvent::CreateVault(_))
        ),
        None => false,
    }
}

fn base_time(off_s: i64) -> UtcDateTime {
    let t = time::OffsetDateTime::from_unix_timestamp_nanos(
        (crate::interpose::CLOCK_BASE_NS as i128) - 1_000_000_000_000 + (off_s as i128) * 1_000_000_000,
    )
    .unwrap();
    t.into()
}

#[allow(dead_code)]
fn _unused(_: Arc<Paths>) {}

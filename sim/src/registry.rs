//! Per-property check configuration (budgets, evidence texts).

#[derive(Clone)]
pub struct PropSpec {
    pub id: &'static str,
    pub family: &'static str,
    pub level: &'static str,
    pub quick_runs: u64,
    pub thorough_runs: u64,
    pub quick_wall_s: u64,
    pub thorough_wall_s: u64,
    pub run_timeout_s: u64,
    pub rule: &'static str,
    pub distinct_by_cases: bool,
    pub expected_probes: &'static [&'static str],
    pub real: &'static [&'static str],
    pub stub: &'static [&'static str],
    pub assumptions: &'static [&'static str],
}

const LOG_REAL: &[&str] = &[
    "sos_backend::BackendEventLog (FileSystem and Database variants)",
    "sos_filesystem::FileSystemEventLog + FormatStream",
    "sos_database::DatabaseEventLog + EventEntity on a real sqlite file",
    "sos_core::commit::{CommitTree, CommitProof}",
    "sos_core binary encoding of events and records",
];

const COMMON_ASSUME: &[&str] = &[
    "sampling, not proof: a clean batch is evidence over the explored seeds only",
    "OS randomness and CLOCK_REALTIME are replaced by seeded streams through symbol interposition in the simulator binary; real kernel file system (tmpfs) and real bundled SQLite are used",
    "one simulated run per child process; the trace hash of every run is reproducible (determinism self-test)",
];

pub fn spec(id: &str) -> Option<PropSpec> {
    let s = match id {
        "C06" => PropSpec {
            id: "C06",
            family: "logw",
            level: "exploration",
            quick_runs: 1500,
            thorough_runs: 40000,
            quick_wall_s: 150,
            thorough_wall_s: 1500,
            run_timeout_s: 60,
            rule: "seeded histories of 10-40 event-log operations (apply, apply_records, checked/unchecked patch, rewind, clear, replace-all, compact, reopen) over 12 co-resident logs x 2 backends driven in lock-step against a sequential model; a run is non-trivial when at least one mutating operation succeeded; distinct = distinct hash of the (operation kind, log kind, outcome class) sequence",
            distinct_by_cases: false,
            expected_probes: &["dup_commit_in_log", "dup_commit_across_logs", "rewind_multi", "reopen", "replace_all_ok", "compact_ok"],
            real: LOG_REAL,
            stub: &[],
            assumptions: COMMON_ASSUME,
        },
        "C07" => PropSpec {
            id: "C07",
            family: "logw",
            level: "exploration",
            quick_runs: 1500,
            thorough_runs: 40000,
            quick_wall_s: 150,
            thorough_wall_s: 1500,
            run_timeout_s: 60,
            rule: "same lock-step log driver as C06 biased toward refusals: checked patches with checkpoints drawn from {current head, earlier heads, heads of diverged siblings, forged}, rewinds to any depth or absent targets followed by a conflicting patch and roll-back, replace-all with wrong checkpoints; non-trivial when at least one request was refused; distinct = distinct (operation kind, log kind, outcome class) sequence",
            distinct_by_cases: false,
            expected_probes: &["patch_conflict", "patch_success", "rewind_absent", "replace_all_refused", "rollback_rewind_multi"],
            real: LOG_REAL,
            stub: &[],
            assumptions: COMMON_ASSUME,
        },
        _ => return None,
    };
    Some(s)
}

pub fn all_ids() -> Vec<&'static str> {
    vec!["C06", "C07"]
}

//! Per-property check configuration (budgets, evidence texts).

#[derive(Clone)]
pub struct PropSpec {
    pub id: &'static str,
    pub family: &'static str,
    pub level: &'static str,
    pub quick_runs: u64,
    pub thorough_runs: u64,
    pub quick_wall_s: u64,
    pub thorough_wall_s: u64,
    pub run_timeout_s: u64,
    pub rule: &'static str,
    pub distinct_by_cases: bool,
    pub expected_probes: &'static [&'static str],
    pub real: &'static [&'static str],
    pub stub: &'static [&'static str],
    pub assumptions: &'static [&'static str],
}

const LOG_REAL: &[&str] = &[
    "sos_backend::BackendEventLog (FileSystem and Database variants)",
    "sos_filesystem::FileSystemEventLog + FormatStream",
    "sos_database::DatabaseEventLog + EventEntity on a real sqlite file",
    "sos_core::commit::{CommitTree, CommitProof}",
    "sos_core binary encoding of events and records",
];

const ACCT_REAL: &[&str] = &[
    "sos_account::LocalAccount (account, sign-in/out, secrets, folders)",
    "sos_client_storage::ClientStorage, sos_backend (Folder, BackendTarget, event logs, vault writers)",
    "sos_vault (AccessPoint, Vault, secret encoding), sos_login identity folder and delegated folder passwords",
    "sos_filesystem / sos_database storage on a real directory / real sqlite file",
    "real KDFs (Argon2id, Balloon) and AEAD ciphers",
];

const COMMON_ASSUME: &[&str] = &[
    "sampling, not proof: a clean batch is evidence over the explored seeds only",
    "OS randomness and CLOCK_REALTIME are replaced by seeded streams through symbol interposition in the simulator binary; real kernel file system (tmpfs) and real bundled SQLite are used",
    "one simulated run per child process; the trace hash of every run is reproducible (determinism self-test)",
];

pub fn spec(id: &str) -> Option<PropSpec> {
    let s = match id {
        "C06" => PropSpec {
            id: "C06",
            family: "logw",
            level: "exploration",
            quick_runs: 1500,
            thorough_runs: 40000,
            quick_wall_s: 150,
            thorough_wall_s: 1500,
            run_timeout_s: 60,
            rule: "seeded histories of 10-40 event-log operations (apply, apply_records, checked/unchecked patch, rewind, clear, replace-all, compact, reopen) over 12 co-resident logs x 2 backends driven in lock-step against a sequential model; a run is non-trivial when at least one mutating operation succeeded; distinct = distinct hash of the (operation kind, log kind, outcome class) sequence",
            distinct_by_cases: false,
            expected_probes: &["dup_commit_in_log", "dup_commit_across_logs", "rewind_multi", "reopen", "replace_all_ok", "compact_ok"],
            real: LOG_REAL,
            stub: &[],
            assumptions: COMMON_ASSUME,
        },
        "C07" => PropSpec {
            id: "C07",
            family: "logw",
            level: "exploration",
            quick_runs: 1500,
            thorough_runs: 40000,
            quick_wall_s: 150,
            thorough_wall_s: 1500,
            run_timeout_s: 60,
            rule: "same lock-step log driver as C06 biased toward refusals: checked patches with checkpoints drawn from {current head, earlier heads, heads of diverged siblings, forged}, rewinds to any depth or absent targets followed by a conflicting patch and roll-back, replace-all with wrong checkpoints; non-trivial when at least one request was refused; distinct = distinct (operation kind, log kind, outcome class) sequence",
            distinct_by_cases: false,
            expected_probes: &["patch_conflict", "patch_success", "rewind_absent", "replace_all_refused", "rollback_rewind_multi"],
            real: LOG_REAL,
            stub: &[],
            assumptions: COMMON_ASSUME,
        },
        "C01" => PropSpec {
            id: "C01",
            family: "acct",
            level: "exploration",
            quick_runs: 320,
            thorough_runs: 6000,
            quick_wall_s: 170,
            thorough_wall_s: 1700,
            run_timeout_s: 120,
            rule: "seeded histories of 12-70 account operations (create/update/move/delete/archive/unarchive over 15 secret kinds with user data and custom fields, empty and large values; folder create/rename/flags/description/delete; folder-level create with caller-chosen and re-used ids; sign-out/sign-in and restart at any position) on one device, backend = seed%2 in {filesystem, sqlite}, cipher = (seed/2)%2 in {AES-GCM, XChaCha20}; after EVERY step the served state (list_folders, list_secret_ids, read_secret, folder_description) is compared with the model, and again after a final restart; non-trivial = at least one mutating op succeeded; distinct = distinct (op kind, outcome class) sequence",
            distinct_by_cases: false,
            expected_probes: &[],
            real: ACCT_REAL,
            stub: &[],
            assumptions: COMMON_ASSUME,
        },
        _ => return None,
    };
    Some(s)
}

pub fn all_ids() -> Vec<&'static str> {
    vec!["C01", "C06", "C07"]
}

//! Parent side: fan runs out to child processes (one simulated run per
//! process), aggregate, triage against the known-findings file, minimise,
//! write replay files and the evidence file.

use crate::common::*;
use crate::registry::{self, PropSpec};
use serde_json::{json, Value};
use std::collections::{BTreeMap, BTreeSet};
use std::path::{Path, PathBuf};
use std::process::{Command, Stdio};
use std::sync::atomic::{AtomicUsize, Ordering};
use std::sync::{Arc, Mutex};
use std::time::{Duration, Instant};

pub const VERIF_DIR: &str = "/verif";

pub fn scratch_root() -> PathBuf {
    let base = if Path::new("/dev/shm").is_dir() {
        PathBuf::from("/dev/shm")
    } else {
        PathBuf::from("/verif/.scratch")
    };
    base.join(format!("sossim-{}", std::process::id()))
}

#[derive(Debug)]
pub enum ChildEnd {
    Outcome(Box<RunOutcome>),
    /// child exceeded its wall budget (possible stall)
    Timeout,
    /// child died / produced no outcome
    Failed(String),
}

pub enum ChildJob {
    Seed { family: String, property: String, seed: u64, tier: Tier },
    Plan { file: PathBuf },
}

pub fn run_child(job: &ChildJob, dir: &Path, timeout: Duration) -> ChildEnd {
    let _ = std::fs::remove_dir_all(dir);
    if let Err(e) = std::fs::create_dir_all(dir) {
        return ChildEnd::Failed(format!("mkdir {}: {e}", dir.display()));
    }
    let exe = std::env::current_exe().expect("current_exe");
    let mut cmd = Command::new(exe);
    match job {
        ChildJob::Seed { family, property, seed, tier } => {
            cmd.arg("run-one")
                .arg(family)
                .arg(property)
                .arg(seed.to_string())
                .arg(tier.as_str())
                .arg(dir);
        }
        ChildJob::Plan { file } => {
            cmd.arg("run-plan").arg(file).arg(dir);
        }
    }
    let errf = std::fs::File::create(dir.join("stderr.txt")).ok();
    cmd.stdin(Stdio::null()).stdout(Stdio::null());
    match errf {
        Some(f) => {
            cmd.stderr(Stdio::from(f));
        }
        None => {
            cmd.stderr(Stdio::null());
        }
    }
    cmd.env("RUST_BACKTRACE", "1");
    cmd.env_remove("RUST_LOG");
    let mut child = match cmd.spawn() {
        Ok(c) => c,
        Err(e) => return ChildEnd::Failed(format!("spawn: {e}")),
    };
    let start = Instant::now();
    let status = loop {
        match child.try_wait() {
            Ok(Some(st)) => break st,
            Ok(None) => {
                if start.elapsed() > timeout {
                    let _ = child.kill();
                    let _ = child.wait();
                    return ChildEnd::Timeout;
                }
                std::thread::sleep(Duration::from_millis(4));
            }
            Err(e) => return ChildEnd::Failed(format!("wait: {e}")),
        }
    };
    let out = dir.join("outcome.json");
    match std::fs::read(&out) {
        Ok(b) => match serde_json::from_slice::<RunOutcome>(&b) {
            Ok(o) => ChildEnd::Outcome(Box::new(o)),
            Err(e) => ChildEnd::Failed(format!("bad outcome json: {e}")),
        },
        Err(_) => {
            let err = std::fs::read_to_string(dir.join("stderr.txt"))
                .unwrap_or_default();
            let tail: String = err
                .lines()
                .rev()
                .take(30)
                .collect::<Vec<_>>()
                .into_iter()
                .rev()
                .collect::<Vec<_>>()
                .join("\n");
            ChildEnd::Failed(format!("exit {status:?}; stderr tail:\n{tail}"))
        }
    }
}

#[derive(Clone, Debug, serde::Deserialize)]
pub struct KnownFinding {
    pub property: String,
    #[serde(default)]
    pub status: String,
    #[serde(default)]
    pub signature: String,
    #[serde(default)]
    pub what_fails: String,
}

pub fn load_known() -> Vec<KnownFinding> {
    let p = Path::new(VERIF_DIR).join("known_findings.json");
    match std::fs::read(&p) {
        Ok(b) => {
            let v: Value = serde_json::from_slice(&b).unwrap_or(json!({}));
            let arr = v
                .get("findings")
                .cloned()
                .unwrap_or_else(|| json!([]));
            serde_json::from_value(arr).unwrap_or_default()
        }
        Err(_) => vec![],
    }
}

fn jobs() -> usize {
    std::env::var("VERIF_JOBS")
        .ok()
        .and_then(|s| s.parse().ok())
        .unwrap_or_else(|| {
            std::thread::available_parallelism()
                .map(|n| n.get())
                .unwrap_or(8)
        })
        .max(1)
}

/// `*` matches any run of characters; everything else is literal.
pub fn glob_match(pat: &str, s: &str) -> bool {
    let parts: Vec<&str> = pat.split('*').collect();
    if parts.len() == 1 {
        return pat == s;
    }
    let mut pos = 0usize;
    for (i, p) in parts.iter().enumerate() {
        if i == 0 {
            if !s.starts_with(p) {
                return false;
            }
            pos = p.len();
        } else if i == parts.len() - 1 {
            return s.len() >= pos + p.len() && s[pos..].ends_with(p);
        } else {
            match s[pos..].find(p) {
                Some(k) => pos += k + p.len(),
                None => return false,
            }
        }
    }
    true
}

pub struct BatchResult {
    pub outcomes: Vec<RunOutcome>,
    pub harness_errors: Vec<String>,
    pub stalls: Vec<u64>,
}

/// Run `seeds` through child processes in parallel.
pub fn run_batch(
    spec: &PropSpec,
    tier: Tier,
    seeds: &[u64],
    root: &Path,
    deadline: Option<Instant>,
) -> BatchResult {
    let next = Arc::new(AtomicUsize::new(0));
    let outcomes = Arc::new(Mutex::new(Vec::new()));
    let errors = Arc::new(Mutex::new(Vec::new()));
    let stalls = Arc::new(Mutex::new(Vec::new()));
    let seeds: Arc<Vec<u64>> = Arc::new(seeds.to_vec());
    let timeout = Duration::from_secs(spec.run_timeout_s);
    let mut handles = vec![];
    for w in 0..jobs().min(seeds.len().max(1)) {
        let next = next.clone();
        let outcomes = outcomes.clone();
        let errors = errors.clone();
        let stalls = stalls.clone();
        let seeds = seeds.clone();
        let root = root.to_path_buf();
        let family = spec.family.to_string();
        let family2 = spec.family2.map(|s| s.to_string());
        let property = spec.id.to_string();
        handles.push(std::thread::spawn(move || loop {
            let i = next.fetch_add(1, Ordering::SeqCst);
            if i >= seeds.len() {
                break;
            }
            if let Some(d) = deadline {
                if Instant::now() > d {
                    break;
                }
            }
            let seed = seeds[i];
            let dir = root.join(format!("w{w}-{seed}"));
            let fam = match &family2 {
                Some(f2) if seed % 3 == 2 => f2.clone(),
                _ => family.clone(),
            };
            let job = ChildJob::Seed {
                family: fam,
                property: property.clone(),
                seed,
                tier,
            };
            let mut end = run_child(&job, &dir, timeout);
            if matches!(end, ChildEnd::Timeout) {
                // a stall only counts when it reproduces
                let again = run_child(&job, &dir, timeout);
                match again {
                    ChildEnd::Timeout => {
                        stalls.lock().unwrap().push(seed);
                        let _ = std::fs::remove_dir_all(&dir);
                        continue;
                    }
                    other => {
                        errors.lock().unwrap().push(format!(
                            "seed {seed}: timed out once, not reproduced"
                        ));
                        end = other;
                    }
                }
            }
            match end {
                ChildEnd::Outcome(o) => {
                    if let Some(e) = &o.harness_error {
                        errors
                            .lock()
                            .unwrap()
                            .push(format!("seed {seed}: {e}"));
                    } else {
                        outcomes.lock().unwrap().push(*o);
                    }
                }
                ChildEnd::Timeout => {}
                ChildEnd::Failed(e) => {
                    errors.lock().unwrap().push(format!("seed {seed}: {e}"))
                }
            }
            let _ = std::fs::remove_dir_all(&dir);
        }));
    }
    for h in handles {
        let _ = h.join();
    }
    let mut outcomes = std::mem::take(&mut *outcomes.lock().unwrap());
    outcomes.sort_by_key(|o| o.plan.seed);
    let errors = std::mem::take(&mut *errors.lock().unwrap());
    let stalls = std::mem::take(&mut *stalls.lock().unwrap());
    BatchResult { outcomes, harness_errors: errors, stalls }
}

fn run_plan_once(plan: &Plan, root: &Path, tag: &str, timeout: Duration) -> ChildEnd {
    let dir = root.join(format!("plan-{tag}"));
    let _ = std::fs::create_dir_all(root);
    let file = root.join(format!("plan-{tag}.json"));
    if std::fs::write(&file, serde_json::to_vec(plan).unwrap()).is_err() {
        return ChildEnd::Failed("cannot write plan".into());
    }
    let end = run_child(&ChildJob::Plan { file: file.clone() }, &dir, timeout);
    let _ = std::fs::remove_dir_all(&dir);
    let _ = std::fs::remove_file(&file);
    end
}

fn reproduces(end: &ChildEnd, property: &str, signature: &str) -> bool {
    match end {
        ChildEnd::Outcome(o) => o
            .violations
            .iter()
            .any(|v| v.property == property && v.signature == signature),
        _ => false,
    }
}

/// Delta-debug the step list while the same violation class reproduces.
pub fn minimise(
    plan: &Plan,
    property: &str,
    signature: &str,
    root: &Path,
    timeout: Duration,
    budget: Duration,
) -> Plan {
    let start = Instant::now();
    let mut best = plan.clone();
    let mut tries = 0usize;
    let mut chunk = (best.steps.len() / 2).max(1);
    let over = |tries: usize| start.elapsed() >= budget || tries >= 400;
    loop {
        let mut i = 0;
        let mut progressed = false;
        while i < best.steps.len() && !over(tries) {
            let end_i = (i + chunk).min(best.steps.len());
            // never remove pinned steps (scenario set-up)
            if best.steps[i..end_i].iter().any(|s| jbool(s, "pin")) {
                i += chunk;
                continue;
            }
            let mut cand = best.clone();
            cand.steps.drain(i..end_i);
            tries += 1;
            let end =
                run_plan_once(&cand, root, &format!("m{tries}"), timeout);
            if reproduces(&end, property, signature) {
                best = cand;
                progressed = true;
            } else {
                i += chunk;
            }
        }
        if over(tries) {
            break;
        }
        if chunk == 1 {
            if !progressed {
                break;
            }
        } else {
            chunk = (chunk / 2).max(1);
        }
    }
    best
}

pub struct CheckReport {
    pub exit: i32,
}

pub fn check(prop: &str, tier: Tier, seed: u64) -> CheckReport {
    let spec = match registry::spec(prop) {
        Some(s) => s,
        None => {
            eprintln!("unknown or unclaimed property {prop}");
            return CheckReport { exit: 2 };
        }
    };
    let t0 = Instant::now();
    let runs = std::env::var("VERIF_RUNS")
        .ok()
        .and_then(|s| s.parse::<u64>().ok())
        .unwrap_or(match tier {
            Tier::Quick => spec.quick_runs,
            Tier::Thorough => spec.thorough_runs,
        });
    let wall_budget = Duration::from_secs(
        std::env::var("VERIF_WALL_S").ok().and_then(|s| s.parse::<u64>().ok()).unwrap_or(match tier {
            Tier::Quick => spec.quick_wall_s,
            Tier::Thorough => spec.thorough_wall_s,
        }),
    );
    let deadline = Some(t0 + wall_budget);
    let seeds: Vec<u64> =
        (0..runs).map(|i| seed.wrapping_mul(1_000_000).wrapping_add(i)).collect();
    let root = scratch_root();
    let _ = std::fs::create_dir_all(&root);

    println!(
        "sossim check property={} tier={} seed={} runs={} jobs={}",
        spec.id,
        tier.as_str(),
        seed,
        runs,
        jobs()
    );

    let batch = run_batch(&spec, tier, &seeds, &root, deadline);
    let known = load_known();

    // ------------------------------------------------------------ aggregate
    let mut stats = Stats::default();
    let mut shapes = BTreeSet::new();
    let mut cases = BTreeSet::new();
    let mut samples = vec![];
    let mut steps_total = 0u64;
    // (signature) -> first outcome index
    let mut viol: BTreeMap<String, (usize, Violation)> = BTreeMap::new();
    for (idx, o) in batch.outcomes.iter().enumerate() {
        stats.merge(&o.stats);
        shapes.insert(o.shape.clone());
        for c in &o.cases {
            cases.insert(c.clone());
        }
        steps_total += o.plan.steps.len() as u64;
        if samples.len() < 3 {
            samples.push(json!({
                "seed": o.plan.seed,
                "config": o.plan.config,
                "steps": o.log.iter().take(40).collect::<Vec<_>>(),
            }));
        }
        for v in &o.violations {
            if v.property != spec.id {
                continue; // reported by the check that owns that property
            }
            viol.entry(v.signature.clone())
                .or_insert_with(|| (idx, v.clone()));
        }
    }

    let mut exit = 0;
    let mut known_hit = vec![];
    let mut known_printed: Vec<String> = vec![];
    let mut minimised = 0usize;
    let mut new_violations = vec![];
    for (sig, (idx, v)) in &viol {
        let listed = known.iter().find(|k| {
            k.property == spec.id && k.status != "fixed" && glob_match(&k.signature, sig)
        });
        if let Some(k) = listed {
            if !known_printed.contains(&k.signature) {
                known_printed.push(k.signature.clone());
                let short: String = k.what_fails.chars().take(220).collect();
                println!("KNOWN-FINDING: property={} [{}] {}", spec.id, k.signature, short);
            }
            known_hit.push(format!("{sig} (first seed {})", batch.outcomes[*idx].plan.seed));
            continue;
        }
        // minimise + replay file
        let o = &batch.outcomes[*idx];
        minimised += 1;
        // minimisation is expensive: only the first few violations of a run
        // are shrunk, the rest keep their original (already replayable) plan
        let min_budget = if minimised <= 4 && spec.family != "crash" && std::env::var("VERIF_NOMIN").is_err() {
            if tier == Tier::Quick { 45 } else { 180 }
        } else {
            0
        };
        let min = if min_budget == 0 { o.plan.clone() } else { minimise(
            &o.plan,
            spec.id,
            sig,
            &root,
            Duration::from_secs(spec.run_timeout_s),
            Duration::from_secs(min_budget),
        ) };
        let confirm = if min_budget == 0 { ChildEnd::Failed("not minimised".into()) } else { run_plan_once(
            &min,
            &root,
            "confirm",
            Duration::from_secs(spec.run_timeout_s),
        ) };
        let (final_plan, confirmed) = if reproduces(&confirm, spec.id, sig) {
            (min, true)
        } else {
            (o.plan.clone(), false)
        };
        let rdir = Path::new(VERIF_DIR).join("replays").join(spec.id);
        let _ = std::fs::create_dir_all(&rdir);
        let rfile = rdir.join(format!("{}-{}.json", o.plan.seed, short_hash(sig)));
        let doc = json!({
            "property": spec.id,
            "signature": sig,
            "detail": v.detail,
            "seed": o.plan.seed,
            "original_steps": o.plan.steps.len(),
            "minimised_steps": final_plan.steps.len(),
            "minimised_confirmed_in_fresh_process": confirmed,
            "plan": final_plan,
        });
        let _ = std::fs::write(&rfile, serde_json::to_vec_pretty(&doc).unwrap());
        println!(
            "VIOLATION property={} replay={}",
            spec.id,
            rfile.display()
        );
        println!("  signature: {sig}");
        println!("  detail: {}", v.detail.replace('\n', "\n    "));
        new_violations.push(sig.clone());
        exit = 1;
    }
    // A run that exceeds its wall budget twice is a verdict only where the
    // property itself promises termination (C09: every sync call ends; C15:
    // never hangs). Elsewhere wall-clock time says nothing about the property
    // (a loaded machine is enough): it is reported as a harness problem.
    let liveness = matches!(spec.id, "C09" | "C15");
    let mut extra_errors: Vec<String> = vec![];
    for s in &batch.stalls {
        if !liveness {
            extra_errors.push(format!("seed {s}: exceeded the per-run wall budget twice (not a verdict for {})", spec.id));
            continue;
        }
        // reproduced stall = no progress
        let sig = format!("{}/no_progress", spec.id);
        let listed = known
            .iter()
            .any(|k| k.property == spec.id && k.status != "fixed" && glob_match(&k.signature, &sig));
        if listed {
            println!("KNOWN-FINDING: property={} run stalls [{sig}]", spec.id);
            continue;
        }
        let rdir = Path::new(VERIF_DIR).join("replays").join(spec.id);
        let _ = std::fs::create_dir_all(&rdir);
        let rfile = rdir.join(format!("{s}-stall.json"));
        let doc = json!({"property": spec.id, "signature": sig, "seed": s,
            "family": spec.family, "tier": tier.as_str(),
            "note": "run exceeded its wall budget twice (reproduced stall); replay with: sossim run-one"});
        let _ = std::fs::write(&rfile, serde_json::to_vec_pretty(&doc).unwrap());
        println!("VIOLATION property={} replay={}", spec.id, rfile.display());
        exit = 1;
    }

    let n_ok = batch.outcomes.len();
    let harness_fail = n_ok == 0
        || (batch.harness_errors.len() + extra_errors.len()) * 10 > seeds.len().max(10);
    for e in batch.harness_errors.iter().chain(extra_errors.iter()).take(5) {
        eprintln!("harness: {e}");
    }

    // --------------------------------------------------------------- evidence
    let wall = t0.elapsed().as_secs_f64();
    let distinct = if spec.distinct_by_cases { cases.len() } else { shapes.len() };
    let mut probes_zero = vec![];
    for p in spec.expected_probes {
        if stats.probes.get(*p).copied().unwrap_or(0) == 0 {
            probes_zero.push(p.to_string());
        }
    }
    let evidence = json!({
        "property_id": spec.id,
        "tier": tier.as_str(),
        "seed": seed,
        "level": spec.level,
        "coverage": {
            "evaluations": if spec.distinct_by_cases {
                stats.counters.get("cases").copied().unwrap_or(n_ok as u64)
            } else { n_ok as u64 },
            "distinct_nontrivial": distinct,
            "rule": spec.rule,
            "samples": samples,
            "runs": n_ok,
            "steps_executed": steps_total,
            "distinct_run_shapes": shapes.len(),
            "distinct_cases": cases.len(),
            "runs_per_hour": if wall > 0.0 { (n_ok as f64 / wall * 3600.0).round() } else { 0.0 },
            "seeds": {"first": seeds.first(), "last": seeds.last(), "derivation": "VERIF_SEED*1e6+i"},
            "sim_time_covered_s": stats.sim_time_s,
            "faults_injected": stats.faults,
            "probes": stats.probes,
            "probes_expected_but_zero": probes_zero,
            "counters": stats.counters,
            "components": {"real": spec.real, "stub": spec.stub},
            "known_findings_reproduced": known_hit,
            "new_violation_signatures": new_violations,
            "harness_errors": batch.harness_errors.len(),
            "stalls": batch.stalls.len(),
            "technique": "deterministic simulation: seeded schedule/workload/fault search, one simulated run per child process, replay files for every violation",
        },
        "assumptions": spec.assumptions,
        "wall_s": wall,
        "violations": viol.len() + if liveness { batch.stalls.len() } else { 0 },
    });
    let edir = Path::new(VERIF_DIR).join("evidence");
    let _ = std::fs::create_dir_all(&edir);
    let efile = edir.join(format!("{}.json", spec.id));
    if let Err(e) = std::fs::write(&efile, serde_json::to_vec_pretty(&evidence).unwrap()) {
        eprintln!("cannot write evidence: {e}");
        exit = if exit == 0 { 2 } else { exit };
    }
    let _ = std::fs::remove_dir_all(&root);

    println!(
        "runs={} distinct={} violations={} known={} harness_errors={} stalls={} wall={:.1}s",
        n_ok,
        distinct,
        viol.len(),
        known_hit.len(),
        batch.harness_errors.len(),
        batch.stalls.len(),
        wall
    );
    if exit == 0 && harness_fail {
        eprintln!("harness failure: too few successful runs");
        exit = 2;
    }
    CheckReport { exit }
}

/// Replay a replay file in a fresh child; exit 1 if the violation reproduces.
pub fn replay(file: &Path) -> i32 {
    let b = match std::fs::read(file) {
        Ok(b) => b,
        Err(e) => {
            eprintln!("cannot read {}: {e}", file.display());
            return 2;
        }
    };
    let doc: Value = match serde_json::from_slice(&b) {
        Ok(v) => v,
        Err(e) => {
            eprintln!("bad replay file: {e}");
            return 2;
        }
    };
    let property = jstr(&doc, "property");
    let signature = jstr(&doc, "signature");
    let plan: Plan = match serde_json::from_value(doc.get("plan").cloned().unwrap_or(json!(null))) {
        Ok(p) => p,
        Err(e) => {
            eprintln!("replay file has no plan: {e}");
            return 2;
        }
    };
    let root = scratch_root();
    let end = run_plan_once(&plan, &root, "replay", Duration::from_secs(600));
    let _ = std::fs::remove_dir_all(&root);
    match end {
        ChildEnd::Outcome(o) => {
            for l in &o.log {
                println!("  {l}");
            }
            let hit = o
                .violations
                .iter()
                .find(|v| v.property == property && v.signature == signature);
            if let Some(v) = hit {
                println!("VIOLATION property={} replay={}", property, file.display());
                println!("  signature: {}", v.signature);
                println!("  detail: {}", v.detail);
                1
            } else {
                println!("replay: violation did not reproduce (other violations: {})", o.violations.len());
                0
            }
        }
        ChildEnd::Timeout => {
            println!("VIOLATION property={} replay={} (stall)", property, file.display());
            1
        }
        ChildEnd::Failed(e) => {
            eprintln!("replay failed: {e}");
            2
        }
    }
}

/// Determinism self-test: every seed twice, in different worker slots;
/// trace hashes must agree.
pub fn determinism(prop: &str, n: u64, seed: u64) -> i32 {
    let spec = match registry::spec(prop) {
        Some(s) => s,
        None => return 2,
    };
    let root = scratch_root();
    let seeds: Vec<u64> = (0..n).map(|i| seed.wrapping_mul(1_000_000) + i).collect();
    let a = run_batch(&spec, Tier::Quick, &seeds, &root.join("a"), None);
    let mut rev = seeds.clone();
    rev.reverse();
    let b = run_batch(&spec, Tier::Quick, &rev, &root.join("b"), None);
    let _ = std::fs::remove_dir_all(&root);
    let ma: BTreeMap<u64, String> = a.outcomes.iter().map(|o| (o.plan.seed, o.trace_hash.clone())).collect();
    let mb: BTreeMap<u64, String> = b.outcomes.iter().map(|o| (o.plan.seed, o.trace_hash.clone())).collect();
    let mut bad = 0;
    for s in &seeds {
        match (ma.get(s), mb.get(s)) {
            (Some(x), Some(y)) if x == y => {}
            (x, y) => {
                bad += 1;
                eprintln!("determinism: seed {s} diverged: {x:?} vs {y:?}");
            }
        }
    }
    println!("determinism {prop}: {} seeds x2, {} diverged", seeds.len(), bad);
    if bad == 0 {
        0
    } else {
        2
    }
}

//! Simulated network: the real `sos_server` axum router is driven in-process
//! (hook H3); `SimClient` builds the same signed HTTP requests as the shipped
//! `HttpClient` and hands them to `SimNet`, which owns delivery: immediate, or
//! parked until the seeded scheduler releases them one at a time; it also
//! injects loss (request / response), partitions, and records every byte that
//! crosses the wire.

use async_trait::async_trait;
use http::{Method, Request, StatusCode};
use http_body_util::BodyExt;
use sos_account::{Account, LocalAccount};
use sos_core::{AccountId, Origin};
use sos_protocol::{
    transfer::{FileTransferQueueRequest, FileTransferQueueSender},
    AsConflict, ConflictError, DiffRequest, DiffResponse, PatchRequest,
    PatchResponse, ScanRequest, ScanResponse, SyncClient, WireEncodeDecode,
};
use sos_remote_sync::{AutoMerge, RemoteSyncHandler};
use sos_server::{ServerConfig, State};
use sos_signer::ed25519::{BinaryEd25519Signature, BoxedEd25519Signer};
use sos_sync::{CreateSet, SyncDirection, SyncPacket, SyncStatus, UpdateSet};
use std::path::{Path, PathBuf};
use std::sync::atomic::{AtomicBool, AtomicU64, Ordering::SeqCst};
use std::sync::{Arc, Mutex as StdMutex};
use tokio::sync::{oneshot, Mutex, RwLock};
use tower::ServiceExt;

pub const X_SOS_ACCOUNT_ID: &str = "x-sos-account-id";
pub const MIME_PROTOBUF: &str = "application/x-protobuf";
pub const ROUTE_ACCOUNT: &str = "/api/v1/sync/account";
pub const ROUTE_STATUS: &str = "/api/v1/sync/account/status";
pub const ROUTE_EVENTS: &str = "/api/v1/sync/account/events";
pub const ROUTE_FILES: &str = "/api/v1/sync/files";

#[derive(Debug, thiserror::Error)]
pub enum SimError {
    #[error(transparent)]
    Conflict(#[from] ConflictError),
    #[error(transparent)]
    RemoteSync(#[from] sos_remote_sync::Error),
    #[error(transparent)]
    Core(#[from] sos_core::Error),
    #[error(transparent)]
    Storage(#[from] sos_backend::StorageError),
    #[error(transparent)]
    Account(#[from] sos_account::Error),
    #[error(transparent)]
    Backend(#[from] sos_backend::Error),
    #[error(transparent)]
    Io(#[from] std::io::Error),
    #[error(transparent)]
    Protocol(#[from] sos_protocol::Error),
    #[error("transport: {0}")]
    Transport(String),
    #[error("http status {0}: {1}")]
    Status(u16, String),
}

impl AsConflict for SimError {
    fn is_conflict(&self) -> bool {
        matches!(self, SimError::Conflict(_))
    }
    fn is_hard_conflict(&self) -> bool {
        matches!(self, SimError::Conflict(ConflictError::Hard))
    }
    fn take_conflict(self) -> Option<ConflictError> {
        match self {
            SimError::Conflict(e) => Some(e),
            _ => None,
        }
    }
}

// -------------------------------------------------------------------- server

pub struct SimServer {
    pub dir: PathBuf,
    pub use_db: bool,
    pub backend: sos_server::ServerBackend,
    pub state: sos_server::ServerState,
    pub router: axum::Router,
}

impl SimServer {
    pub async fn start(dir: &Path, use_db: bool, config: Option<ServerConfig>) -> anyhow::Result<SimServer> {
        std::fs::create_dir_all(dir)?;
        // the configuration must come from a file (its directory anchors
        // relative paths); the file lives next to the storage directory
        let cfg_dir = dir.with_extension("cfg");
        std::fs::create_dir_all(&cfg_dir)?;
        let cfg_file = cfg_dir.join("config.toml");
        std::fs::write(&cfg_file, format!("[storage]\npath = {:?}\n", dir.display().to_string()))?;
        let mut loaded = ServerConfig::load(&cfg_file).await?;
        if let Some(c) = config {
            loaded.access = c.access;
        }
        let mut config = loaded;
        config.storage.path = dir.to_path_buf();
        if use_db {
            config.storage.database_uri =
                Some(sos_server::UriOrPath::Path(dir.join("accounts.db")));
        }
        let backend = config.backend().await?;
        let backend = Arc::new(RwLock::new(backend));
        let state = Arc::new(RwLock::new(State::new(config)));
        let router = sos_server::Server::verif_router(state.clone(), backend.clone())?;
        Ok(SimServer { dir: dir.to_path_buf(), use_db, backend, state, router })
    }

    /// The server-side storage of one account.
    pub async fn account(
        &self,
        id: &AccountId,
    ) -> Option<Arc<RwLock<sos_server_storage::ServerStorage>>> {
        let b = self.backend.read().await;
        let accounts = b.accounts();
        let a = accounts.read().await;
        a.get(id).cloned()
    }
}

// ----------------------------------------------------------------------- net

#[derive(Clone, Debug, serde::Serialize)]
pub struct Delivery {
    pub seq: u64,
    pub device: usize,
    pub kind: String,
    pub status: u16,
    pub fault: Option<String>,
    pub req_len: usize,
    pub resp_len: usize,
}

pub struct Pending {
    pub device: usize,
    pub kind: String,
    pub req: Request<axum::body::Body>,
    pub req_bytes: Vec<u8>,
    pub tx: oneshot::Sender<Result<(StatusCode, Option<String>, Vec<u8>), SimError>>,
}

#[derive(Default, Clone, Debug)]
pub struct FaultPlan {
    /// drop the request / the response of the n-th delivery (0-based global counter)
    pub drop_request_at: Vec<u64>,
    pub drop_response_at: Vec<u64>,
}

pub struct SimNetInner {
    pub router: StdMutex<Option<axum::Router>>,
    pub parked: StdMutex<Vec<Pending>>,
    /// park requests for the scheduler instead of delivering immediately
    pub park: AtomicBool,
    pub seq: AtomicU64,
    pub faults: StdMutex<FaultPlan>,
    pub log: StdMutex<Vec<Delivery>>,
    /// every request and response body, for the plaintext scanner
    pub tap_on: AtomicBool,
    pub tap: StdMutex<Vec<(String, Vec<u8>)>>,
    pub fault_counts: StdMutex<std::collections::BTreeMap<String, u64>>,
}

#[derive(Clone)]
pub struct SimNet(pub Arc<SimNetInner>);

impl SimNet {
    pub fn new(router: axum::Router) -> SimNet {
        SimNet(Arc::new(SimNetInner {
            router: StdMutex::new(Some(router)),
            parked: StdMutex::new(vec![]),
            park: AtomicBool::new(false),
            seq: AtomicU64::new(0),
            faults: StdMutex::new(FaultPlan::default()),
            log: StdMutex::new(vec![]),
            tap_on: AtomicBool::new(false),
            tap: StdMutex::new(vec![]),
            fault_counts: StdMutex::new(Default::default()),
        }))
    }

    pub fn set_router(&self, router: Option<axum::Router>) {
        *self.0.router.lock().unwrap() = router;
    }

    fn count_fault(&self, k: &str) {
        *self.0.fault_counts.lock().unwrap().entry(k.to_string()).or_default() += 1;
    }

    /// Hand a request to the server now. Applies the fault plan.
    pub async fn deliver_now(
        &self,
        device: usize,
        kind: &str,
        req: Request<axum::body::Body>,
        req_bytes: &[u8],
    ) -> Result<(StatusCode, Option<String>, Vec<u8>), SimError> {
        let seq = self.0.seq.fetch_add(1, SeqCst);
        if std::env::var("SOSSIM_TRACE").is_ok() { eprintln!("  deliver #{seq} d{device} {kind}"); }
        let (drop_req, drop_resp) = {
            let f = self.0.faults.lock().unwrap();
            (f.drop_request_at.contains(&seq), f.drop_response_at.contains(&seq))
        };
        if self.0.tap_on.load(SeqCst) {
            self.0.tap.lock().unwrap().push((format!("req:{kind}"), req_bytes.to_vec()));
        }
        let mut d = Delivery {
            seq,
            device,
            kind: kind.to_string(),
            status: 0,
            fault: None,
            req_len: req_bytes.len(),
            resp_len: 0,
        };
        if drop_req {
            self.count_fault("net.drop_request");
            d.fault = Some("drop_request".into());
            self.0.log.lock().unwrap().push(d);
            return Err(SimError::Transport("request lost".into()));
        }
        let router = self.0.router.lock().unwrap().clone();
        let Some(router) = router else {
            d.fault = Some("server_down".into());
            self.0.log.lock().unwrap().push(d);
            return Err(SimError::Transport("connection refused".into()));
        };
        let resp = router
            .oneshot(req)
            .await
            .map_err(|e| SimError::Transport(format!("router: {e}")))?;
        let status = resp.status();
        let ctype = resp
            .headers()
            .get(http::header::CONTENT_TYPE)
            .and_then(|v| v.to_str().ok())
            .map(|s| s.to_string());
        let body = resp
            .into_body()
            .collect()
            .await
            .map_err(|e| SimError::Transport(format!("body: {e}")))?
            .to_bytes()
            .to_vec();
        d.status = status.as_u16();
        d.resp_len = body.len();
        if self.0.tap_on.load(SeqCst) {
            self.0.tap.lock().unwrap().push((format!("resp:{kind}"), body.clone()));
        }
        if drop_resp {
            self.count_fault("net.drop_response");
            d.fault = Some("drop_response".into());
            self.0.log.lock().unwrap().push(d);
            return Err(SimError::Transport("response lost".into()));
        }
        self.0.log.lock().unwrap().push(d);
        Ok((status, ctype, body))
    }

    /// Client entry point: deliver now, or park for the scheduler.
    pub async fn send(
        &self,
        device: usize,
        kind: &str,
        req: Request<axum::body::Body>,
        req_bytes: Vec<u8>,
    ) -> Result<(StatusCode, Option<String>, Vec<u8>), SimError> {
        if self.0.park.load(SeqCst) {
            let (tx, rx) = oneshot::channel();
            self.0.parked.lock().unwrap().push(Pending {
                device,
                kind: kind.to_string(),
                req,
                req_bytes,
                tx,
            });
            rx.await
                .map_err(|_| SimError::Transport("scheduler dropped request".into()))?
        } else {
            self.deliver_now(device, kind, req, &req_bytes).await
        }
    }

    pub fn parked_len(&self) -> usize {
        self.0.parked.lock().unwrap().len()
    }

    /// Release one parked request (chosen by the scheduler).
    pub async fn release(&self, idx: usize) -> Option<(usize, String)> {
        let p = {
            let mut q = self.0.parked.lock().unwrap();
            // canonical order: by device, so that the choice does not depend on
            // which task happened to park first in real time
            q.sort_by_key(|p| p.device);
            if idx >= q.len() {
                return None;
            }
            q.remove(idx)
        };
        let res = self.deliver_now(p.device, &p.kind, p.req, &p.req_bytes).await;
        let _ = p.tx.send(res);
        Some((p.device, p.kind))
    }

    pub fn parked_kinds(&self) -> Vec<(usize, String)> {
        let mut q = self.0.parked.lock().unwrap();
        q.sort_by_key(|p| p.device);
        q.iter().map(|p| (p.device, p.kind.clone())).collect()
    }
}

// -------------------------------------------------------------------- client

#[derive(Clone)]
pub struct SimClient {
    pub net: SimNet,
    pub device: usize,
    pub account_id: AccountId,
    pub signer: BoxedEd25519Signer,
    pub origin: Origin,
    pub online: Arc<AtomicBool>,
    pub connection_id: String,
}

pub async fn bearer(signer: &BoxedEd25519Signer, bytes: &[u8]) -> Result<String, SimError> {
    let sig = signer
        .sign(bytes)
        .await
        .map_err(|e| SimError::Transport(format!("sign: {e}")))?;
    let sig: BinaryEd25519Signature = sig.into();
    let enc = sos_core::encode(&sig).await?;
    Ok(format!("Bearer {}", bs58::encode(enc).into_string()))
}

impl SimClient {
    pub fn uri(&self, route: &str) -> String {
        format!("{route}?connection_id={}", self.connection_id)
    }

    pub async fn request(
        &self,
        kind: &str,
        method: Method,
        route: &str,
        body: Option<Vec<u8>>,
    ) -> Result<(StatusCode, Option<String>, Vec<u8>), SimError> {
        if !self.online.load(SeqCst) {
            return Err(SimError::Transport("offline".into()));
        }
        let sign_bytes: Vec<u8> = match &body {
            Some(b) => b.clone(),
            None => route.as_bytes().to_vec(),
        };
        let auth = bearer(&self.signer, &sign_bytes).await?;
        let mut b = Request::builder()
            .method(method)
            .uri(self.uri(route))
            .header(X_SOS_ACCOUNT_ID, self.account_id.to_string())
            .header(http::header::AUTHORIZATION, auth);
        if body.is_some() {
            b = b.header(http::header::CONTENT_TYPE, MIME_PROTOBUF);
        }
        let bytes = body.unwrap_or_default();
        let req = b
            .body(axum::body::Body::from(bytes.clone()))
            .map_err(|e| SimError::Transport(format!("build: {e}")))?;
        self.net.send(self.device, kind, req, bytes).await
    }

    /// File routes: the signature is over the URL path (as the real
    /// `HttpClient` does), the body is opaque bytes or a caller-built stream.
    pub async fn file_request(
        &self,
        kind: &str,
        method: Method,
        path: &str,
        extra_query: Option<&str>,
        body: Option<axum::body::Body>,
        body_bytes_for_tap: Vec<u8>,
    ) -> Result<(StatusCode, Option<String>, Vec<u8>), SimError> {
        if !self.online.load(SeqCst) {
            return Err(SimError::Transport("offline".into()));
        }
        let auth = bearer(&self.signer, path.as_bytes()).await?;
        let mut uri = self.uri(path);
        if let Some(q) = extra_query {
            uri.push('&');
            uri.push_str(q);
        }
        let mut b = Request::builder()
            .method(method)
            .uri(uri)
            .header(X_SOS_ACCOUNT_ID, self.account_id.to_string())
            .header(http::header::AUTHORIZATION, auth);
        if body.is_some() {
            b = b.header(http::header::CONTENT_TYPE, "application/octet-stream");
        }
        let req = b
            .body(body.unwrap_or_else(axum::body::Body::empty))
            .map_err(|e| SimError::Transport(format!("build: {e}")))?;
        self.net.send(self.device, kind, req, body_bytes_for_tap).await
    }

    /// `POST /sync/files`: which files does the server lack / hold in addition.
    pub async fn compare_files(
        &self,
        local: sos_protocol::transfer::FileSet,
    ) -> Result<sos_protocol::transfer::FileTransfersSet, SimError> {
        let body = local.encode().await?;
        let auth = bearer(&self.signer, ROUTE_FILES.as_bytes()).await?;
        if !self.online.load(SeqCst) {
            return Err(SimError::Transport("offline".into()));
        }
        let req = Request::builder()
            .method(Method::POST)
            .uri(self.uri(ROUTE_FILES))
            .header(X_SOS_ACCOUNT_ID, self.account_id.to_string())
            .header(http::header::AUTHORIZATION, auth)
            .header(http::header::CONTENT_TYPE, MIME_PROTOBUF)
            .body(axum::body::Body::from(body.clone()))
            .map_err(|e| SimError::Transport(format!("build: {e}")))?;
        let r = self.net.send(self.device, "compare_files", req, body).await?;
        let b = self.check(r)?;
        Ok(sos_protocol::transfer::FileTransfersSet::decode(bytes::Bytes::from(b)).await?)
    }

    fn check(
        &self,
        r: (StatusCode, Option<String>, Vec<u8>),
    ) -> Result<Vec<u8>, SimError> {
        let (status, ctype, body) = r;
        if status == StatusCode::OK && ctype.as_deref() == Some(MIME_PROTOBUF) {
            Ok(body)
        } else if status.is_success() {
            Ok(body)
        } else {
            Err(SimError::Status(
                status.as_u16(),
                String::from_utf8_lossy(&body).chars().take(200).collect(),
            ))
        }
    }
}

#[async_trait]
impl SyncClient for SimClient {
    type Error = SimError;

    fn origin(&self) -> &Origin {
        &self.origin
    }

    async fn account_exists(&self) -> Result<bool, SimError> {
        let (status, _, body) = self.request("exists", Method::HEAD, ROUTE_ACCOUNT, None).await?;
        match status {
            StatusCode::OK => Ok(true),
            StatusCode::NOT_FOUND => Ok(false),
            s => Err(SimError::Status(s.as_u16(), String::from_utf8_lossy(&body).into_owned())),
        }
    }

    async fn create_account(&self, account: CreateSet) -> Result<(), SimError> {
        let body = account.encode().await?;
        let r = self.request("create", Method::PUT, ROUTE_ACCOUNT, Some(body)).await?;
        self.check(r).map(|_| ())
    }

    async fn update_account(&self, account: UpdateSet) -> Result<(), SimError> {
        let body = account.encode().await?;
        let r = self.request("update", Method::POST, ROUTE_ACCOUNT, Some(body)).await?;
        self.check(r).map(|_| ())
    }

    async fn fetch_account(&self) -> Result<CreateSet, SimError> {
        let r = self.request("fetch", Method::GET, ROUTE_ACCOUNT, None).await?;
        let b = self.check(r)?;
        Ok(CreateSet::decode(bytes::Bytes::from(b)).await?)
    }

    async fn delete_account(&self) -> Result<(), SimError> {
        let r = self.request("delete", Method::DELETE, ROUTE_ACCOUNT, None).await?;
        self.check(r).map(|_| ())
    }

    async fn sync_status(&self) -> Result<SyncStatus, SimError> {
        let r = self.request("status", Method::GET, ROUTE_STATUS, None).await?;
        let b = self.check(r)?;
        Ok(SyncStatus::decode(bytes::Bytes::from(b)).await?)
    }

    async fn sync(&self, packet: SyncPacket) -> Result<SyncPacket, SimError> {
        let body = packet.encode().await?;
        let r = self.request("sync", Method::PATCH, ROUTE_ACCOUNT, Some(body)).await?;
        let b = self.check(r)?;
        Ok(SyncPacket::decode(bytes::Bytes::from(b)).await?)
    }

    async fn scan(&self, request: ScanRequest) -> Result<ScanResponse, SimError> {
        let body = request.encode().await?;
        let r = self.request("scan", Method::GET, ROUTE_EVENTS, Some(body)).await?;
        let b = self.check(r)?;
        Ok(ScanResponse::decode(bytes::Bytes::from(b)).await?)
    }

    async fn diff(&self, request: DiffRequest) -> Result<DiffResponse, SimError> {
        let body = request.encode().await?;
        let r = self.request("diff", Method::POST, ROUTE_EVENTS, Some(body)).await?;
        let b = self.check(r)?;
        Ok(DiffResponse::decode(bytes::Bytes::from(b)).await?)
    }

    async fn patch(&self, request: PatchRequest) -> Result<PatchResponse, SimError> {
        let body = request.encode().await?;
        let r = self.request("patch", Method::PATCH, ROUTE_EVENTS, Some(body)).await?;
        let b = self.check(r)?;
        Ok(PatchResponse::decode(bytes::Bytes::from(b)).await?)
    }
}

// -------------------------------------------------------------------- bridge

/// The glue `RemoteBridge` is in production: connects the real
/// `RemoteSyncHandler` / `AutoMerge` logic with a client and an account.
#[derive(Clone)]
pub struct SimBridge {
    pub account_id: AccountId,
    pub account: Arc<Mutex<LocalAccount>>,
    pub client: SimClient,
    pub queue: FileTransferQueueSender,
}

impl SimBridge {
    pub async fn new(
        net: &SimNet,
        device: usize,
        account: Arc<Mutex<LocalAccount>>,
        online: Arc<AtomicBool>,
    ) -> Result<SimBridge, SimError> {
        let (account_id, signer) = {
            let a = account.lock().await;
            let signer = a.device_signer().await?;
            (*a.account_id(), signer)
        };
        let origin: Origin = url::Url::parse("http://sim.server.invalid/").unwrap().into();
        let (queue, _) = tokio::sync::broadcast::channel::<FileTransferQueueRequest>(32);
        Ok(SimBridge {
            account_id,
            account,
            client: SimClient {
                net: net.clone(),
                device,
                account_id,
                signer: signer.into(),
                origin,
                online,
                connection_id: format!("dev{device}"),
            },
            queue,
        })
    }
}

#[async_trait]
impl RemoteSyncHandler for SimBridge {
    type Client = SimClient;
    type Account = LocalAccount;
    type Error = SimError;

    fn direction(&self) -> SyncDirection {
        SyncDirection::Push
    }
    fn client(&self) -> &Self::Client {
        &self.client
    }
    fn origin(&self) -> &Origin {
        &self.client.origin
    }
    fn account_id(&self) -> &AccountId {
        &self.account_id
    }
    fn account(&self) -> Arc<Mutex<Self::Account>> {
        self.account.clone()
    }
    fn file_transfer_queue(&self) -> &FileTransferQueueSender {
        &self.queue
    }
    async fn execute_sync_file_transfers(&self) -> Result<(), SimError> {
        // file transfers are driven explicitly by the C17 world
        Ok(())
    }
}

#[async_trait]
impl AutoMerge for SimBridge {}

//! Stored-byte faults on a single device's storage:
//!
//! * C10 — every AEAD blob of every folder: decrypt(original) works with the
//!   folder's key; after a bit flip anywhere in nonce / ciphertext / tag, a
//!   truncation, an extension, or a swap with another blob's parts it FAILS;
//!   another folder's key fails; bit flips of stored bytes read through the
//!   public API (after a restart) give an error, never data.
//! * C16 — the integrity report is clean on the untouched account and flags
//!   a failure for the affected folder after any single content-byte flip or
//!   removal.

use crate::common::*;
use crate::device::*;
use crate::oracles::*;
use sos_account::Account;
use sos_backend::BackendTarget;
use sos_core::{
    crypto::{AeadPack, Nonce},
    encode, SecretId, VaultId,
};
use sos_integrity::{account_integrity, FolderIntegrityEvent};
use std::collections::BTreeMap;
use std::path::PathBuf;

fn mutate_pack(p: &AeadPack, m: usize, other: Option<&AeadPack>) -> (String, AeadPack) {
    let mut q = p.clone();
    let nb = match &q.nonce {
        Nonce::Nonce12(n) => n.len(),
        Nonce::Nonce24(n) => n.len(),
    };
    let flip_nonce = |q: &mut AeadPack, bit: usize| match &mut q.nonce {
        Nonce::Nonce12(n) => n[(bit / 8) % 12] ^= 1 << (bit % 8),
        Nonce::Nonce24(n) => n[(bit / 8) % 24] ^= 1 << (bit % 8),
    };
    let ctl = q.ciphertext.len();
    match m {
        0 => {
            flip_nonce(&mut q, 0);
            ("nonce_first_bit".into(), q)
        }
        1 => {
            flip_nonce(&mut q, nb * 8 - 1);
            ("nonce_last_bit".into(), q)
        }
        2 if ctl > 0 => {
            q.ciphertext[0] ^= 1;
            ("ciphertext_first_bit".into(), q)
        }
        3 if ctl > 0 => {
            q.ciphertext[ctl / 2] ^= 0x10;
            ("ciphertext_middle_bit".into(), q)
        }
        4 if ctl > 0 => {
            q.ciphertext[ctl - 1] ^= 0x80;
            ("tag_last_bit".into(), q)
        }
        5 if ctl > 0 => {
            q.ciphertext.truncate(ctl - 1);
            ("truncated_by_one".into(), q)
        }
        6 => {
            q.ciphertext.push(0);
            ("extended_by_one".into(), q)
        }
        7 if ctl > 16 => {
            q.ciphertext.truncate(ctl - 16);
            ("tag_removed".into(), q)
        }
        8 => {
            if let Some(o) = other {
                q.ciphertext = o.ciphertext.clone();
                ("ciphertext_swapped_with_other_blob".into(), q)
            } else {
                q.ciphertext.clear();
                ("ciphertext_emptied".into(), q)
            }
        }
        9 => {
            if let Some(o) = other {
                q.nonce = o.nonce.clone();
                ("nonce_swapped_with_other_blob".into(), q)
            } else {
                flip_nonce(&mut q, 13);
                ("nonce_bit".into(), q)
            }
        }
        k => {
            // any single bit, position derived from k
            if ctl > 0 {
                let bit = (k * 7919) % (ctl * 8);
                q.ciphertext[bit / 8] ^= 1 << (bit % 8);
            } else {
                flip_nonce(&mut q, k);
            }
            ("ciphertext_bit".into(), q)
        }
    }
}

/// C10 (b): API-level tamper evidence on every stored blob.
pub async fn tamper_blobs(dev: &mut Device, rec: &mut Recorder) {
    let backend = dev.kind.name();
    let ids: Vec<VaultId> = dev.model.folders.keys().copied().collect();
    let mut tried = 0u64;
    for f in ids {
        let (Ok(v), Ok(ev)) = (mirror_vault(dev, &f).await, folder_events(dev, &f).await) else { continue };
        let Some(key) = folder_key(dev, &f).await else { continue };
        let Some(pk) = derive(&v, &key) else { continue };
        let packs = folder_packs(&v, &ev).await;
        // only blobs of the current key epoch decrypt; blobs in old events were
        // encrypted under the same key unless the folder was re-keyed (then the
        // log was rewritten), so every blob must decrypt
        for (i, (what, p)) in packs.iter().enumerate().take(24) {
            let cipher_name = format!("{:?}", v.cipher());
            match v.decrypt(&pk, p).await {
                Ok(_) => {}
                Err(e) => {
                    rec.violate(
                        "C10",
                        &format!("C10/{backend}/stored_blob_does_not_decrypt_with_folder_key"),
                        format!("folder {f}: {what}: {e}"),
                    );
                    continue;
                }
            }
            let other = packs.get((i + 1) % packs.len()).map(|x| &x.1).filter(|o| *o != p);
            for m in 0..14 {
                let (name, q) = mutate_pack(p, m, other);
                if &q == p {
                    continue;
                }
                tried += 1;
                rec.case(&format!("{cipher_name}:{name}:{}", p.ciphertext.len().min(64)));
                if let Ok(pt) = v.decrypt(&pk, &q).await {
                    rec.violate(
                        "C10",
                        &format!("C10/{backend}/tampered_blob_decrypts/{name}"),
                        format!("folder {f} ({cipher_name}): {what} mutated by {name} still decrypts to {} bytes", pt.len()),
                    );
                }
            }
        }
    }
    rec.stats.count_n("c10.tamper_trials", tried);
    rec.stats.count_n("cases", tried);
    // plaintext round-trip at the boundaries (empty, 1 byte, large)
    if let Some((f, _)) = dev.model.folders.iter().next() {
        let f = *f;
        if let (Ok(v), Some(key)) = (mirror_vault(dev, &f).await, folder_key(dev, &f).await) {
            if let Some(pk) = derive(&v, &key) {
                for n in [0usize, 1, 31, 4096, 1 << 20] {
                    let pt: Vec<u8> = (0..n).map(|i| (i * 31 % 251) as u8).collect();
                    match v.encrypt(&pk, &pt).await {
                        Ok(a) => match v.decrypt(&pk, &a).await {
                            Ok(back) if back == pt => {}
                            other => rec.violate(
                                "C10",
                                &format!("C10/{backend}/roundtrip_failed"),
                                format!("plaintext of {n} bytes: {:?}", other.map(|b| b.len())),
                            ),
                        },
                        Err(e) => rec.violate("C10", &format!("C10/{backend}/encrypt_failed"), format!("{n} bytes: {e}")),
                    }
                }
            }
        }
    }
    // storage-level: flip stored bytes, restart, read through the public API
    stored_flip_trials(dev, rec).await;
}

/// C10 (c, d): a folder unlocks only with its own password; the same
/// password with a different salt derives a different key.
pub async fn key_binding(dev: &mut Device, rec: &mut Recorder) {
    let backend = dev.kind.name();
    let ids: Vec<VaultId> = dev.model.folders.keys().copied().collect();
    let mut keys = BTreeMap::new();
    for f in &ids {
        if let Some(k) = folder_key(dev, f).await {
            keys.insert(*f, k);
        }
    }
    let mut checks = 0u64;
    for (n, f) in ids.iter().enumerate() {
        let Ok(v) = mirror_vault(dev, f).await else { continue };
        if let Some(own) = keys.get(f) {
            if let Err(e) = v.verify(own).await {
                rec.violate("C10", &format!("C10/{backend}/own_password_rejected"), format!("folder {f}: {e}"));
            }
        }
        // up to two other folders' passwords (each verify costs one KDF)
        for g in ids.iter().cycle().skip(n + 1).take(2) {
            if g == f {
                continue;
            }
            if let Some(other) = keys.get(g) {
                checks += 1;
                if v.verify(other).await.is_ok() {
                    rec.violate(
                        "C10",
                        &format!("C10/{backend}/other_folders_password_unlocks"),
                        format!("folder {f} verifies with the password of folder {g}"),
                    );
                }
            }
        }
        // same password, fresh salt => different key: blobs must not decrypt
        if n == 0 {
            if let Some(own) = keys.get(f) {
                if let sos_core::crypto::AccessKey::Password(pw) = own {
                    let salt = sos_core::crypto::KeyDerivation::generate_salt();
                    if let Ok(d) = v.deriver().derive(pw, &salt, v.seed()) {
                        let pk2 = sos_core::crypto::PrivateKey::Symmetric(d);
                        if let Some(m) = v.header().meta() {
                            if v.decrypt(&pk2, m).await.is_ok() {
                                rec.violate(
                                    "C10",
                                    &format!("C10/{backend}/same_password_other_salt_same_key"),
                                    format!("folder {f}: a key derived from the same password and a different salt decrypts the vault meta"),
                                );
                            }
                        }
                    }
                }
            }
        }
    }
    rec.stats.count_n("c10.key_binding_checks", checks);
}

// ------------------------------------------------------------ stored bytes

/// Where a folder secret's encoded blobs live.
enum Store {
    File(PathBuf),
    Db(sos_database::async_sqlite::Client),
}

async fn store_of(dev: &Device, fid: &VaultId) -> Option<Store> {
    let a = dev.lock().await;
    match a.backend_target().await {
        BackendTarget::FileSystem(paths) => {
            Some(Store::File(paths.with_account_id(a.account_id()).vault_path(fid)))
        }
        BackendTarget::Database(_, client) => Some(Store::Db(client)),
    }
}

fn find_sub(h: &[u8], n: &[u8]) -> Option<usize> {
    if n.is_empty() || h.len() < n.len() {
        return None;
    }
    h.windows(n.len()).position(|w| w == n)
}

/// Flip one bit of the stored encoding of a secret's `meta` or `secret`
/// blob at relative position `at` (0..len). Returns an undo closure input.
async fn flip_stored(
    store: &Store,
    sid: &SecretId,
    which_secret: bool,
    enc: &[u8],
    at: usize,
) -> Result<(Vec<u8>, usize), String> {
    match store {
        Store::File(p) => {
            let mut b = std::fs::read(p).map_err(|e| e.to_string())?;
            let pos = find_sub(&b, enc).ok_or("encoded blob not found in vault file")?;
            let orig = b.clone();
            b[pos + at % enc.len()] ^= 0x04;
            std::fs::write(p, &b).map_err(|e| e.to_string())?;
            Ok((orig, pos))
        }
        Store::Db(client) => {
            let col = if which_secret { "secret" } else { "meta" };
            let id = sid.to_string();
            let mut m = enc.to_vec();
            let k = at % m.len();
            m[k] ^= 0x04;
            let sql = format!("UPDATE folder_secrets SET {col} = ?1 WHERE identifier = ?2");
            client
                .conn(move |c| c.execute(&sql, (m, id)).map(|_| ()))
                .await
                .map_err(|e| e.to_string())?;
            Ok((enc.to_vec(), 0))
        }
    }
}

async fn undo_flip(store: &Store, sid: &SecretId, which_secret: bool, orig: Vec<u8>) {
    match store {
        Store::File(p) => {
            let _ = std::fs::write(p, orig);
        }
        Store::Db(client) => {
            let col = if which_secret { "secret" } else { "meta" };
            let id = sid.to_string();
            let sql = format!("UPDATE folder_secrets SET {col} = ?1 WHERE identifier = ?2");
            let _ = client.conn(move |c| c.execute(&sql, (orig, id)).map(|_| ())).await;
        }
    }
}

async fn stored_flip_trials(dev: &mut Device, rec: &mut Recorder) {
    let backend = dev.kind.name();
    let targets: Vec<(VaultId, SecretId)> = dev
        .model
        .folders
        .iter()
        .flat_map(|(f, m)| m.secrets.keys().map(move |s| (*f, *s)))
        .take(3)
        .collect();
    let mut trials = 0u64;
    for (n, (fid, sid)) in targets.into_iter().enumerate() {
        let Ok(v) = mirror_vault(dev, &fid).await else { continue };
        let Some((_, c)) = v.iter().find(|(id, _)| **id == sid) else { continue };
        let which_secret = n % 2 == 0;
        let pack = if which_secret { &c.1 .1 } else { &c.1 .0 };
        let Ok(enc) = encode(pack).await else { continue };
        let Some(store) = store_of(dev, &fid).await else { continue };
        let expected = dev.model.folders.get(&fid).and_then(|f| f.secrets.get(&sid)).cloned();
        // positions: inside the nonce, the ciphertext body and the tag
        for at in [6usize, enc.len() / 2, enc.len() - 1] {
            // the writer must be closed while bytes change under it
            dev.account = None;
            let (orig, _) = match flip_stored(&store, &sid, which_secret, &enc, at).await {
                Ok(x) => x,
                Err(e) => {
                    rec.stats.count("c10.stored_flip_skipped");
                    rec.observe(&e);
                    let _ = dev.open().await;
                    break;
                }
            };
            trials += 1;
            rec.stats.fault("disk.bitflip");
            let reopened = dev.open().await;
            match reopened {
                Ok(()) => {
                    let a = dev.lock().await;
                    match a.read_secret(&sid, Some(&fid)).await {
                        Err(_) => {}
                        Ok((row, _)) => {
                            let got = secret_m(row.meta(), row.secret());
                            let same = expected.as_ref().map(|e| e == &got).unwrap_or(false);
                            rec.violate(
                                "C10",
                                &format!(
                                    "C10/{backend}/stored_bit_flip_not_detected_on_read/{}",
                                    if same { "returns_original_data" } else { "returns_other_data" }
                                ),
                                format!(
                                    "secret {sid} in folder {fid}: byte {at} of the stored {} blob flipped, read_secret still returned a value",
                                    if which_secret { "secret" } else { "meta" }
                                ),
                            );
                        }
                    }
                }
                Err(_) => {
                    // refusing to open is also an error, not data
                }
            }
            dev.account = None;
            undo_flip(&store, &sid, which_secret, orig).await;
            let _ = dev.open().await;
        }
    }
    rec.stats.count_n("c10.stored_flip_trials", trials);
}

// --------------------------------------------------------------- integrity

async fn run_report(dev: &Device, concurrency: usize) -> Result<(Vec<(VaultId, String)>, bool), String> {
    let (target, account_id, folders) = {
        let a = dev.lock().await;
        let t = a.backend_target().await.with_account_id(a.account_id());
        let f = a.list_folders().await.map_err(|e| e.to_string())?;
        (t, *a.account_id(), f)
    };
    let (mut rx, _cancel) = account_integrity(&target, &account_id, folders, concurrency)
        .await
        .map_err(|e| e.to_string())?;
    let mut failures = vec![];
    let mut complete = false;
    let mut budget = 200_000u32;
    while let Some(ev) = rx.recv().await {
        budget -= 1;
        if budget == 0 {
            return Err("integrity report did not terminate".into());
        }
        match ev {
            FolderIntegrityEvent::Failure(id, f) => failures.push((id, format!("{f:?}"))),
            FolderIntegrityEvent::Complete => complete = true,
            _ => {}
        }
    }
    Ok((failures, complete))
}

/// C16: sound on the untouched account, complete on single-byte corruption.
pub async fn integrity_checks(dev: &mut Device, rec: &mut Recorder) {
    let backend = dev.kind.name();
    let conc = [1usize, 2, 8][(dev.model.folders.len()) % 3];
    // ---- soundness
    match run_report(dev, conc).await {
        Ok((failures, complete)) => {
            rec.stats.count("c16.clean_reports");
            if !failures.is_empty() {
                rec.violate(
                    "C16",
                    &format!("C16/{backend}/clean_account_reports_failure"),
                    format!("untouched account: {:?}", failures.iter().take(3).collect::<Vec<_>>()),
                );
            }
            if !complete {
                rec.violate("C16", &format!("C16/{backend}/report_never_completes"), "no Complete event".into());
            }
        }
        Err(e) => {
            rec.violate("C16", &format!("C16/{backend}/report_failed_on_clean_account"), e);
            return;
        }
    }
    // ---- completeness: one content byte at a time
    let targets: Vec<(VaultId, SecretId)> = dev
        .model
        .folders
        .iter()
        .flat_map(|(f, m)| m.secrets.keys().map(move |s| (*f, *s)))
        .take(4)
        .collect();
    let mut trials = 0u64;
    for (n, (fid, sid)) in targets.into_iter().enumerate() {
        let Ok(v) = mirror_vault(dev, &fid).await else { continue };
        let Some((_, c)) = v.iter().find(|(id, _)| **id == sid) else { continue };
        let which_secret = n % 2 == 1;
        let pack = if which_secret { &c.1 .1 } else { &c.1 .0 };
        let Ok(enc) = encode(pack).await else { continue };
        let Some(store) = store_of(dev, &fid).await else { continue };
        for at in [enc.len() / 3, enc.len() - 2] {
            dev.account = None;
            let (orig, _) = match flip_stored(&store, &sid, which_secret, &enc, at).await {
                Ok(x) => x,
                Err(_) => {
                    let _ = dev.open().await;
                    break;
                }
            };
            rec.stats.fault("disk.bitflip");
            trials += 1;
            let what = if which_secret { "secret" } else { "meta" };
            rec.case(&format!("{backend}:vault_row.{what}:{}", at * 8 / enc.len().max(1)));
            // the report works on storage; sign-in may or may not succeed
            let opened = dev.open().await.is_ok();
            if opened {
                match run_report(dev, conc).await {
                    Ok((failures, _)) => {
                        if !failures.iter().any(|(id, _)| *id == fid) {
                            rec.violate(
                                "C16",
                                &format!("C16/{backend}/corrupted_vault_row_not_reported/{what}"),
                                format!("folder {fid}: byte {at} of the stored {what} blob of secret {sid} flipped; report failures: {:?}", failures),
                            );
                        }
                    }
                    Err(e) => rec.observe(&format!("report error after corruption: {e}")),
                }
            }
            dev.account = None;
            undo_flip(&store, &sid, which_secret, orig).await;
            let _ = dev.open().await;
        }
    }
    // event record payload corruption (file-system backend: bytes in the log file;
    // sqlite: the event column)
    trials += corrupt_event_trials(dev, rec, conc).await;
    trials += file_blob_trials(dev, rec, conc).await;
    trials += removal_trials(dev, rec, conc).await;
    rec.stats.count_n("c16.corruption_trials", trials);
    rec.stats.count_n("cases", trials);
}

async fn corrupt_event_trials(dev: &mut Device, rec: &mut Recorder, conc: usize) -> u64 {
    let backend = dev.kind.name();
    let mut trials = 0;
    let fids: Vec<VaultId> = dev.model.folders.keys().copied().take(2).collect();
    for fid in fids {
        let target = {
            let a = dev.lock().await;
            a.backend_target().await.with_account_id(a.account_id())
        };
        match &target {
            BackendTarget::FileSystem(paths) => {
                let p = paths.event_log_path(&fid);
                let Ok(orig) = std::fs::read(&p) else { continue };
                if orig.len() < 120 {
                    continue;
                }
                // the last record: | u32 len | 12 time | 32 last | 32 commit | u32 dlen | data | u32 len |
                let n = orig.len();
                let row_len = u32::from_le_bytes([orig[n - 4], orig[n - 3], orig[n - 2], orig[n - 1]]) as usize;
                if row_len < 81 || row_len + 8 > n {
                    continue;
                }
                let data_len = row_len - 80;
                let data_start = n - 4 - data_len;
                let commit_start = data_start - 4 - 32;
                // one byte of the payload, one byte of the stored commit hash
                for (back, region) in [(n - (data_start + data_len / 2), "payload"), (n - (commit_start + 7), "commit")] {
                    let _ = region;
                    let mut b = orig.clone();
                    let at = b.len() - back;
                    b[at] ^= 0x20;
                    dev.account = None;
                    if std::fs::write(&p, &b).is_err() {
                        let _ = dev.open().await;
                        continue;
                    }
                    trials += 1;
                    rec.stats.fault("disk.bitflip");
                    rec.case(&format!("{backend}:event_log:{back}"));
                    let failures = integrity_without_account(&target, dev, conc).await;
                    match failures {
                        Ok(fs) => {
                            if !fs.iter().any(|(id, _)| *id == fid) {
                                rec.violate(
                                    "C16",
                                    &format!("C16/{backend}/corrupted_event_record_not_reported"),
                                    format!("folder {fid}: byte {at} (={back} from the end) of the event log flipped; report failures: {:?}", fs),
                                );
                            }
                        }
                        Err(e) => rec.observe(&format!("report error: {e}")),
                    }
                    let _ = std::fs::write(&p, &orig);
                    let _ = dev.open().await;
                }
            }
            BackendTarget::Database(_, client) => {
                let id = fid.to_string();
                let row: Result<Option<(i64, Vec<u8>)>, _> = client
                    .conn(move |c| {
                        let mut st = c.prepare(
                            "SELECT e.event_id, e.event FROM folder_events e JOIN folders f ON f.folder_id = e.folder_id WHERE f.identifier = ?1 ORDER BY e.event_id DESC LIMIT 1",
                        )?;
                        let mut rows = st.query([id])?;
                        if let Some(r) = rows.next()? {
                            Ok(Some((r.get(0)?, r.get(1)?)))
                        } else {
                            Ok(None)
                        }
                    })
                    .await;
                let Ok(Some((eid, ev))) = row else { continue };
                if ev.len() < 8 {
                    continue;
                }
                let mut m = ev.clone();
                let at = m.len() / 2;
                m[at] ^= 0x20;
                let c2 = client.clone();
                dev.account = None;
                if c2
                    .conn(move |c| c.execute("UPDATE folder_events SET event = ?1 WHERE event_id = ?2", (m, eid)).map(|_| ()))
                    .await
                    .is_err()
                {
                    let _ = dev.open().await;
                    continue;
                }
                trials += 1;
                rec.stats.fault("disk.bitflip");
                rec.case(&format!("{backend}:event_column"));
                match integrity_without_account(&target, dev, conc).await {
                    Ok(fs) => {
                        if !fs.iter().any(|(id, _)| *id == fid) {
                            rec.violate(
                                "C16",
                                &format!("C16/{backend}/corrupted_event_record_not_reported"),
                                format!("folder {fid}: a byte of the newest event row flipped; report failures: {:?}", fs),
                            );
                        }
                    }
                    Err(e) => rec.observe(&format!("report error: {e}")),
                }
                let _ = client
                    .conn(move |c| c.execute("UPDATE folder_events SET event = ?1 WHERE event_id = ?2", (ev, eid)).map(|_| ()))
                    .await;
                let _ = dev.open().await;
            }
        }
    }
    trials
}

/// Run the report without a signed-in account (folder list from the model).
async fn integrity_without_account(
    target: &BackendTarget,
    dev: &Device,
    conc: usize,
) -> Result<Vec<(VaultId, String)>, String> {
    // summaries are needed: read them from storage through a short-lived account
    let t = make_target(&dev.dir, dev.kind).await.map_err(|e| e.to_string())?;
    let mut a = sos_account::LocalAccount::new_unauthenticated(dev.account_id, t)
        .await
        .map_err(|e| e.to_string())?;
    let key: sos_core::crypto::AccessKey = dev.password.clone().into();
    let folders = match a.sign_in(&key).await {
        Ok(f) => f,
        Err(e) => return Err(format!("sign_in: {e}")),
    };
    let (mut rx, _cancel) = account_integrity(target, &dev.account_id, folders, conc)
        .await
        .map_err(|e| e.to_string())?;
    let mut failures = vec![];
    let mut budget = 200_000u32;
    while let Some(ev) = rx.recv().await {
        budget -= 1;
        if budget == 0 {
            return Err("integrity report did not terminate".into());
        }
        if let FolderIntegrityEvent::Failure(id, f) = ev {
            failures.push((id, format!("{f:?}")));
        }
    }
    Ok(failures)
}


/// External file report: (files with a failure, completed).
async fn run_file_report(dev: &Device, concurrency: usize) -> Result<(Vec<String>, bool, usize), String> {
    use sos_integrity::{file_integrity, FileIntegrityEvent};
    use sos_sync::StorageEventLogs;
    let (target, files) = {
        let a = dev.lock().await;
        let t = a.backend_target().await.with_account_id(a.account_id());
        let f = a.canonical_files().await.map_err(|e| e.to_string())?;
        (t, f)
    };
    let n = files.len();
    if n == 0 {
        // the report never completes on an empty set by construction (no file
        // finishes last); nothing to check
        return Ok((vec![], true, 0));
    }
    let (mut rx, _cancel) = file_integrity(&target, files, concurrency).await.map_err(|e| e.to_string())?;
    let mut failures = vec![];
    let mut complete = false;
    let mut budget = 400_000u32;
    loop {
        let ev = match tokio::time::timeout(std::time::Duration::from_secs(20), rx.recv()).await {
            Ok(Some(ev)) => ev,
            Ok(None) => break,
            Err(_) => return Err("file integrity report did not terminate within 20 s".into()),
        };
        budget -= 1;
        if budget == 0 {
            return Err("file integrity report did not terminate".into());
        }
        match ev {
            FileIntegrityEvent::Failure(f, why) => failures.push(format!("{f} {why:?}").chars().take(200).collect()),
            FileIntegrityEvent::Complete => {
                complete = true;
                break;
            }
            _ => {}
        }
    }
    Ok((failures, complete, n))
}

/// C16 for external file blobs: clean => no failure; one byte changed or the
/// blob removed => a failure that names the file.
async fn file_blob_trials(dev: &mut Device, rec: &mut Recorder, conc: usize) -> u64 {
    use sos_sync::StorageEventLogs;
    let backend = dev.kind.name();
    let mut trials = 0;
    match run_file_report(dev, conc).await {
        Ok((failures, complete, n)) => {
            if n > 0 {
                rec.stats.count("c16.clean_file_reports");
            }
            if !failures.is_empty() {
                rec.violate("C16", &format!("C16/{backend}/clean_account_reports_file_failure"), format!("{:?}", failures.iter().take(3).collect::<Vec<_>>()));
            }
            if !complete {
                rec.violate("C16", &format!("C16/{backend}/file_report_never_completes"), format!("{n} files"));
            }
        }
        Err(e) => {
            rec.violate("C16", &format!("C16/{backend}/file_report_failed_on_clean_account"), e);
            return 0;
        }
    }
    let (paths, files) = {
        let a = dev.lock().await;
        (a.paths(), a.canonical_files().await.unwrap_or_default())
    };
    for (k, f) in files.iter().take(2).enumerate() {
        let path = paths.into_file_path(f);
        let Ok(orig) = std::fs::read(&path) else { continue };
        // (a) one byte
        if !orig.is_empty() {
            let mut b = orig.clone();
            let at = (k * 7919 + orig.len() / 2) % orig.len();
            b[at] ^= 0x10;
            if std::fs::write(&path, &b).is_ok() {
                rec.stats.fault("disk.bitflip");
                trials += 1;
                rec.case(&format!("{backend}:blob.byte:{}", at * 4 / orig.len().max(1)));
                match run_file_report(dev, conc).await {
                    Ok((failures, _, _)) => {
                        if !failures.iter().any(|x| x.starts_with(&f.to_string())) {
                            rec.violate(
                                "C16",
                                &format!("C16/{backend}/corrupted_blob_not_reported"),
                                format!("{f}: byte {at} of {} flipped; failures: {failures:?}", orig.len()),
                            );
                        }
                    }
                    Err(e) => rec.observe(&format!("file report error after corruption: {e}")),
                }
                let _ = std::fs::write(&path, &orig);
            }
        }
        // (b) removed
        let aside = path.with_extension("aside");
        if std::fs::rename(&path, &aside).is_ok() {
            rec.stats.fault("disk.file_removed");
            trials += 1;
            rec.case(&format!("{backend}:blob.removed"));
            match run_file_report(dev, conc).await {
                Ok((failures, _, _)) => {
                    if !failures.iter().any(|x| x.starts_with(&f.to_string())) {
                        rec.violate(
                            "C16",
                            &format!("C16/{backend}/removed_blob_not_reported"),
                            format!("{f} removed; failures: {failures:?}"),
                        );
                    }
                }
                Err(e) => rec.observe(&format!("file report error after removal: {e}")),
            }
            let _ = std::fs::rename(&aside, &path);
        }
    }
    trials
}

/// C16: a folder whose vault or event log has been removed (file-system
/// backend: the file is gone) must show up in the report.
async fn removal_trials(dev: &mut Device, rec: &mut Recorder, conc: usize) -> u64 {
    if dev.kind != BackendKind::Fs {
        return 0;
    }
    let mut trials = 0;
    let paths = { dev.lock().await.paths() };
    let fids: Vec<VaultId> = dev.model.folders.keys().copied().take(2).collect();
    for fid in fids {
        for (what, path) in [("vault", paths.vault_path(&fid)), ("log", paths.event_log_path(&fid))] {
            if !path.exists() {
                continue;
            }
            let aside = path.with_extension("aside");
            if std::fs::rename(&path, &aside).is_err() {
                continue;
            }
            rec.stats.fault("disk.file_removed");
            trials += 1;
            rec.case(&format!("fs:folder.{what}.removed"));
            match run_report(dev, conc).await {
                Ok((failures, _)) => {
                    if !failures.iter().any(|(id, _)| *id == fid) {
                        rec.violate(
                            "C16",
                            &format!("C16/fs/removed_folder_{what}_not_reported"),
                            format!("folder {fid}: {} removed; report failures: {failures:?}", path.display()),
                        );
                    }
                }
                // the report refusing to run at all is a detection too
                Err(e) => {
                    rec.stats.count("c16.report_errors_on_removed_file");
                    rec.observe(&format!("report error after removing {what}: {e}"));
                }
            }
            let _ = std::fs::rename(&aside, &path);
        }
    }
    trials
}

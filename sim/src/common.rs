//! Types shared by every scenario family and the runner.

use serde::{Deserialize, Serialize};
use serde_json::{json, Value};
use std::collections::BTreeMap;
use std::path::PathBuf;

#[derive(Clone, Copy, Debug, PartialEq, Eq, Serialize, Deserialize)]
#[serde(rename_all = "lowercase")]
pub enum Tier {
    Quick,
    Thorough,
}

impl Tier {
    pub fn parse(s: &str) -> Tier {
        if s == "thorough" {
            Tier::Thorough
        } else {
            Tier::Quick
        }
    }
    pub fn as_str(&self) -> &'static str {
        match self {
            Tier::Quick => "quick",
            Tier::Thorough => "thorough",
        }
    }
}

/// One property violation observed by an oracle.
#[derive(Clone, Debug, Serialize, Deserialize)]
pub struct Violation {
    /// property id (C01 …)
    pub property: String,
    /// stable violation-class key; known findings are matched on it
    pub signature: String,
    /// human readable detail
    pub detail: String,
    /// index of the step after which the oracle failed
    pub step: usize,
}

/// A replayable plan: everything needed to re-execute a run exactly.
#[derive(Clone, Debug, Serialize, Deserialize)]
pub struct Plan {
    pub family: String,
    pub property: String,
    pub seed: u64,
    pub config: Value,
    pub steps: Vec<Value>,
}

#[derive(Clone, Debug, Default, Serialize, Deserialize)]
pub struct Stats {
    /// fault kind -> times it actually fired
    pub faults: BTreeMap<String, u64>,
    /// rare-branch probes -> hits
    pub probes: BTreeMap<String, u64>,
    /// counters (ops executed, checks evaluated …)
    pub counters: BTreeMap<String, u64>,
    /// simulated seconds covered by the run
    pub sim_time_s: f64,
}

impl Stats {
    pub fn fault(&mut self, k: &str) {
        *self.faults.entry(k.to_string()).or_default() += 1;
    }
    pub fn probe(&mut self, k: &str) {
        *self.probes.entry(k.to_string()).or_default() += 1;
    }
    pub fn probe_n(&mut self, k: &str, n: u64) {
        *self.probes.entry(k.to_string()).or_default() += n;
    }
    pub fn count(&mut self, k: &str) {
        *self.counters.entry(k.to_string()).or_default() += 1;
    }
    pub fn count_n(&mut self, k: &str, n: u64) {
        *self.counters.entry(k.to_string()).or_default() += n;
    }
    pub fn merge(&mut self, o: &Stats) {
        for (k, v) in &o.faults {
            *self.faults.entry(k.clone()).or_default() += v;
        }
        for (k, v) in &o.probes {
            *self.probes.entry(k.clone()).or_default() += v;
        }
        for (k, v) in &o.counters {
            *self.counters.entry(k.clone()).or_default() += v;
        }
        self.sim_time_s += o.sim_time_s;
    }
}

/// What a child process reports for one run.
#[derive(Clone, Debug, Serialize, Deserialize)]
pub struct RunOutcome {
    pub plan: Plan,
    pub violations: Vec<Violation>,
    pub stats: Stats,
    /// hash of the (step kind, outcome class) sequence: the "distinct run" measure
    pub shape: String,
    /// hashes of distinct sub-cases explored in this run (for measures finer than a run)
    #[serde(default)]
    pub cases: Vec<String>,
    /// hash of the full event log of the run (used by the determinism self-test)
    pub trace_hash: String,
    /// executed step log, one short line per step (for samples)
    pub log: Vec<String>,
    /// non-deterministic harness problem (never a verdict)
    #[serde(default)]
    pub harness_error: Option<String>,
}

pub struct RunCtx {
    pub property: String,
    pub seed: u64,
    pub tier: Tier,
    /// scratch directory of this run (removed by the parent)
    pub dir: PathBuf,
}

/// Accumulates the step log, shape and trace hashes while a run executes.
#[derive(Default)]
pub struct Recorder {
    pub log: Vec<String>,
    shape: Sha,
    trace: Sha,
    pub violations: Vec<Violation>,
    pub stats: Stats,
    pub cases: std::collections::BTreeSet<String>,
    pub step: usize,
}

#[derive(Default)]
struct Sha(Vec<u8>);
impl Sha {
    fn add(&mut self, s: &str) {
        use sha2::{Digest, Sha256};
        let mut h = Sha256::new();
        h.update(&self.0);
        h.update(s.as_bytes());
        self.0 = h.finalize().to_vec();
    }
    fn hex(&self) -> String {
        hex::encode(&self.0[..self.0.len().min(12)])
    }
}

impl Recorder {
    /// Record an executed step: `kind` and `class` feed the shape hash,
    /// `detail` additionally feeds the trace hash.
    pub fn step(&mut self, idx: usize, kind: &str, class: &str, detail: &str) {
        self.step = idx;
        self.shape.add(&format!("{kind}:{class}"));
        self.trace.add(&format!("{idx}:{kind}:{class}:{detail}"));
        if self.log.len() < 400 {
            self.log.push(format!("{idx} {kind} -> {class} {detail}"));
        }
    }
    /// Feed extra observed state into the trace hash only.
    pub fn observe(&mut self, what: &str) {
        self.trace.add(what);
    }
    pub fn case(&mut self, key: &str) {
        if self.cases.len() < 20000 {
            self.cases.insert(short_hash(key));
        }
    }
    pub fn violate(&mut self, property: &str, signature: &str, detail: String) {
        // one entry per (property, signature) and run is enough
        if self
            .violations
            .iter()
            .any(|v| v.property == property && v.signature == signature)
        {
            return;
        }
        let mut detail = detail;
        if detail.len() > 4000 {
            detail.truncate(4000);
        }
        self.violations.push(Violation {
            property: property.to_string(),
            signature: signature.to_string(),
            detail,
            step: self.step,
        });
    }
    pub fn finish(self, plan: Plan) -> RunOutcome {
        RunOutcome {
            plan,
            violations: self.violations,
            stats: self.stats,
            shape: self.shape.hex(),
            cases: self.cases.into_iter().collect(),
            trace_hash: self.trace.hex(),
            log: self.log,
            harness_error: None,
        }
    }
}

pub fn short_hash(s: &str) -> String {
    use sha2::{Digest, Sha256};
    let mut h = Sha256::new();
    h.update(s.as_bytes());
    hex::encode(&h.finalize()[..8])
}

pub fn sha256_hex(b: &[u8]) -> String {
    use sha2::{Digest, Sha256};
    let mut h = Sha256::new();
    h.update(b);
    hex::encode(h.finalize())
}

pub fn jstr(v: &Value, k: &str) -> String {
    v.get(k).and_then(|x| x.as_str()).unwrap_or("").to_string()
}
pub fn ju64(v: &Value, k: &str) -> u64 {
    v.get(k).and_then(|x| x.as_u64()).unwrap_or(0)
}
pub fn ji64(v: &Value, k: &str) -> i64 {
    v.get(k).and_then(|x| x.as_i64()).unwrap_or(0)
}
pub fn jbool(v: &Value, k: &str) -> bool {
    v.get(k).and_then(|x| x.as_bool()).unwrap_or(false)
}
pub fn jusize(v: &Value, k: &str) -> usize {
    ju64(v, k) as usize
}

pub fn op(name: &str, mut rest: Value) -> Value {
    if let Some(m) = rest.as_object_mut() {
        m.insert("op".into(), json!(name));
    }
    rest
}

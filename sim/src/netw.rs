//! Family `netw`: 2-3 devices of one account and the real server behind the
//! in-process router. Local edits, offline spans, syncs in any order,
//! overlapping syncs under the request scheduler, lost requests/responses,
//! clock skew; then quiescence rounds. Carries the C02, C04, C05, C08, C09
//! and C20 oracles.

use crate::common::*;
use crate::device::*;
use crate::net::*;
use crate::netoracle as no;
use crate::rng::Rng;
use serde_json::{json, Value};
use sos_protocol::SyncOptions;
use sos_remote_sync::AutoMerge;
use std::path::Path;
use std::sync::atomic::{AtomicBool, Ordering::SeqCst};
use std::sync::Arc;

pub const N_SLOTS: u64 = 6;

pub struct NetDevice {
    pub dev: Device,
    pub online: Arc<AtomicBool>,
    pub bridge: Option<SimBridge>,
    pub skew_ns: i64,
    /// records committed by local operations on this device, per log
    pub own: no::OwnCommits,
    pub last_sync_ok: bool,
    pub last_err: String,
}

pub struct NetWorld {
    pub server: SimServer,
    pub net: SimNet,
    pub devices: Vec<NetDevice>,
    pub base: no::LogSet,
    /// devices of other accounts on the same server (C11)
    pub extra: Vec<NetDevice>,
    /// another account that exists on the server
    pub other_account: Option<sos_core::AccountId>,
    /// index into `extra` of an account the access configuration excludes
    pub excluded_device: Option<usize>,
    pub access_mode: String,
    /// a device key that was trusted and then revoked
    pub revoked_key: Option<sos_signer::ed25519::BoxedEd25519Signer>,
    /// plaintext scanner (C03)
    pub scanner: Option<crate::plainscan::Scanner>,
    pub root: std::path::PathBuf,
}

pub fn generate(property: &str, seed: u64, tier: Tier) -> Plan {
    let mut r = Rng::new(seed).fork("netw");
    let n_dev = if r.chance(2, 3) { 2 } else { 3 };
    let n_steps = match tier {
        Tier::Quick => r.range(10, 28),
        Tier::Thorough => r.range(14, 44),
    } as usize;
    let concurrent = property == "C09" || r.chance(1, 4);
    let faults = matches!(property, "C04" | "C05" | "C09") && r.chance(1, 2);
    let skew = r.chance(1, 3);
    let rewrite = matches!(property, "C02" | "C04" | "C09" | "C20") && r.chance(1, 4);
    let mut w: Vec<(&str, u64)> = vec![
        ("create", 10),
        ("update", 8),
        ("delete", 5),
        ("move", 3),
        ("archive", 1),
        ("unarchive", 1),
        ("fcreate", 3),
        ("frename", 3),
        ("fflags", 1),
        ("fdesc", 2),
        ("fdelete", 1),
        ("sync", 9),
        ("offline", 3),
        ("online", 3),
        ("csync", if concurrent { 5 } else { 0 }),
        ("fault", if faults { 3 } else { 0 }),
        ("restart", 1),
        ("compact", if rewrite { 2 } else { 0 }),
        ("chpw_folder", if rewrite { 1 } else { 0 }),
        ("trust", 1),
        ("stale_patch", if property == "C07" { 8 } else { 0 }),
        ("forge", if property == "C11" { 5 } else { 0 }),
        ("export", if property == "C03" { 2 } else { 0 }),
        ("fdesc", if property == "C03" { 4 } else { 0 }),
        ("revoke_flow", if property == "C11" { 2 } else { 0 }),
    ];
    for (name, x) in w.iter_mut() {
        if matches!(*name, "create" | "sync") {
            continue;
        }
        if r.chance(1, 6) {
            *x = 0;
        } else if r.chance(1, 5) {
            *x *= 3;
        }
    }
    let weights: Vec<u64> = w.iter().map(|x| x.1).collect();
    let mut steps = vec![];
    let mut val = seed.wrapping_mul(7919) % 1_000_000;
    // a little shared history first, so that divergent suffixes have a prefix
    let pre = r.range(1, 4);
    for _ in 0..pre {
        val += 1;
        steps.push(json!({"op":"create","dev":0,"slot":r.below(N_SLOTS),"folder":0,"kind":r.below(15),"val":val,
            "label":r.below(3),"tags":r.below(8),"fav":false,"big":false}));
    }
    steps.push(json!({"op":"syncall"}));
    for _ in 0..n_steps {
        val += 1;
        let dev = r.below(n_dev);
        let k = w[r.weighted(&weights)].0;
        let slot = r.below(N_SLOTS);
        let any_folder = |r: &mut Rng| -> u64 { *r.pick(&[0u64, 0, 0, 4, 4, 5, 1]) };
        let s = match k {
            "create" => json!({"op":"create","dev":dev,"slot":slot,"folder":any_folder(&mut r),"kind":r.below(15),"val":val,
                "label":r.below(3),"tags":r.below(8),"fav":r.chance(1,3),"big":false}),
            "update" => json!({"op":"update","dev":dev,"slot":slot,"val":val,"label":r.below(3),"tags":r.below(8),
                "fav":r.chance(1,3),"meta_only":r.chance(1,4)}),
            "delete" => json!({"op":"delete","dev":dev,"slot":slot}),
            "move" => json!({"op":"move","dev":dev,"slot":slot,"to":any_folder(&mut r)}),
            "archive" => json!({"op":"archive","dev":dev,"slot":slot}),
            "unarchive" => json!({"op":"unarchive","dev":dev,"slot":slot}),
            "fcreate" => json!({"op":"fcreate","dev":dev,"fslot":r.below(2),"name":r.below(2),"cipher":r.below(2),"kdf":r.below(2),"val":val}),
            "frename" => json!({"op":"frename","dev":dev,"fslot":any_folder(&mut r),"name":r.below(2),"val":val}),
            "fflags" => json!({"op":"fflags","dev":dev,"fslot":any_folder(&mut r),"local":false}),
            "fdesc" => json!({"op":"fdesc","dev":dev,"fslot":any_folder(&mut r),"val":val}),
            "fdelete" => json!({"op":"fdelete","dev":dev,"fslot":r.below(2)}),
            "sync" => json!({"op":"sync","dev":dev}),
            "offline" => json!({"op":"offline","dev":dev}),
            "online" => json!({"op":"online","dev":dev}),
            "csync" => json!({"op":"csync","sched":r.next_u64() % 1_000_000, "pct": r.chance(1,3)}),
            "fault" => json!({"op":"fault","kind": if r.chance(1,2) {"drop_request"} else {"drop_response"}, "nth": r.below(4)}),
            "restart" => json!({"op":"restart","dev":dev}),
            "compact" => json!({"op":"compact","dev":dev,"fslot":any_folder(&mut r)}),
            "chpw_folder" => json!({"op":"chpw_folder","dev":dev,"fslot":any_folder(&mut r),"val":val}),
            "trust" => json!({"op":"trust","dev":dev,"key":r.below(2),"revoke":r.chance(1,3)}),
            "forge" => json!({"op":"forge","dev":dev}),
            "export" => json!({"op":"export","dev":dev}),
            "revoke_flow" => json!({"op":"revoke_flow","dev":dev}),
            "stale_patch" => json!({"op":"stale_patch","dev":dev,"log":r.below(8),"depth":r.below(4),"proof": if r.chance(1,2) {"forged"} else {"stale"}}),
            other => json!({"op":other,"dev":dev}),
        };
        steps.push(s);
    }
    if property == "C03" {
        // re-keying paths handle decrypted material too: a folder description,
        // then a cipher change / folder password change / compaction on the
        // same device, then a sync so the result also crosses the wire.
        // Spliced in from an independent stream (the rest of the plan of a
        // seed is unchanged).
        let mut fr = Rng::new(seed).fork("netw.c03.rekey");
        if fr.chance(3, 4) && steps.len() > 4 {
            let d = fr.below(n_dev);
            let fslot = *fr.pick(&[0u64, 0, 4, 4, 5]);
            let a = 2 + fr.below(steps.len() as u64 - 3) as usize;
            let rekey = match fr.below(4) {
                0 | 1 => json!({"op":"chcipher","dev":d,"cipher":1,"kdf":fr.below(2),"push":true}),
                2 => json!({"op":"chpw_folder","dev":d,"fslot":fslot,"val":val + 500,"push":true}),
                _ => json!({"op":"compact","dev":d,"fslot":fslot,"push":true}),
            };
            steps.insert(a, json!({"op":"sync","dev":d}));
            steps.insert(a, rekey);
            steps.insert(a, json!({"op":"fdesc","dev":d,"fslot":fslot,"val":val + 501}));
        }
    }
    if matches!(property, "C04" | "C05") {
        // divergence of the FILES event log: a shared first file event, then two
        // devices each add an external file while apart. Independent stream.
        let mut fr = Rng::new(seed).fork("netw.files_log");
        if fr.chance(1, 4) && steps.len() > 4 {
            let a = fr.below(n_dev);
            let b = (a + 1 + fr.below(n_dev - 1)) % n_dev;
            let x = |dev: u64, k: u64, fr: &mut Rng| {
                json!({"op":"xcreate","dev":dev,"slot":fr.below(N_SLOTS),"folder":0,"val":val + 400 + k,"size":fr.below(5),
                    "label":fr.below(3),"tags":fr.below(8),"fav":false,"attach":0})
            };
            let mut seq = vec![x(a, 0, &mut fr)];
            for d in [a, a, b, b] {
                seq.push(json!({"op":"sync","dev":d}));
            }
            seq.push(x(a, 1, &mut fr));
            seq.push(x(b, 2, &mut fr));
            let (first, second) = if fr.chance(1, 2) { (a, b) } else { (b, a) };
            seq.push(json!({"op":"sync","dev":first}));
            seq.push(json!({"op":"sync","dev":second}));
            let at = 2 + fr.below(steps.len() as u64 - 1) as usize;
            for (i, st) in seq.into_iter().enumerate() {
                steps.insert((at + i).min(steps.len()), st);
            }
        }
    }
    if property == "C20" {
        // lifecycle of a folder that the other device only ever sees through
        // merges: created and filled on device a, propagated (two syncs each:
        // folders travel in two phases), edited, then deleted on a and the
        // deletion merged on b. Independent stream.
        let mut fr = Rng::new(seed).fork("netw.c20.remote_folder");
        if fr.chance(1, 2) && steps.len() > 4 {
            let a = fr.below(n_dev);
            let b = (a + 1 + fr.below(n_dev - 1)) % n_dev;
            let k = fr.below(2);
            let folder = 4 + k;
            let mut seq = vec![json!({"op":"fcreate","dev":a,"fslot":k,"name":fr.below(2),"cipher":fr.below(2),"kdf":fr.below(2),"val":val + 300})];
            for j in 0..fr.range(1, 3) {
                seq.push(json!({"op":"create","dev":a,"slot":fr.below(N_SLOTS),"folder":folder,"kind":fr.below(15),"val":val + 301 + j,
                    "label":fr.below(3),"tags":fr.below(8),"fav":fr.chance(1,2),"big":false}));
            }
            for d in [a, a, b, b] {
                seq.push(json!({"op":"sync","dev":d}));
            }
            if fr.chance(1, 2) {
                seq.push(json!({"op":"update","dev":a,"slot":fr.below(N_SLOTS),"val":val + 310,"label":fr.below(3),"tags":fr.below(8),"fav":fr.chance(1,2),"meta_only":fr.chance(1,2)}));
                seq.push(json!({"op":"sync","dev":a}));
                seq.push(json!({"op":"sync","dev":b}));
            }
            seq.push(json!({"op":"fdelete","dev":a,"fslot":k}));
            seq.push(json!({"op":"sync","dev":a}));
            seq.push(json!({"op":"sync","dev":b}));
            let at = 2 + fr.below(steps.len() as u64 - 1) as usize;
            for (i, st) in seq.into_iter().enumerate() {
                steps.insert((at + i).min(steps.len()), st);
            }
        }
    }
    if property == "C19" {
        // upgrades of devices (and sometimes the server) from the file-system
        // to the database backend at seeded positions, with synced and
        // unsynced state, plus a few external attachments
        let mut ur = Rng::new(seed).fork("netw.c19");
        let n_x = ur.range(0, 2);
        for k in 0..n_x {
            let at = 2 + ur.below(steps.len() as u64 - 1) as usize;
            steps.insert(at, json!({"op":"xcreate","dev":ur.below(n_dev),"slot":ur.below(N_SLOTS),"folder":*ur.pick(&[0u64, 0, 4]),
                "val":val + 700 + k,"size":ur.below(5),"label":ur.below(3),"tags":ur.below(8),"fav":false,"attach":ur.below(3)}));
        }
        let n_up = ur.range(1, 3);
        for _ in 0..n_up {
            let d = ur.below(n_dev);
            let at = 2 + ur.below(steps.len() as u64 - 1) as usize;
            steps.insert(at, json!({"op":"upgrade","dev":d,"keep_stale":ur.chance(1,2)}));
            if ur.chance(1, 2) {
                // in-sync case: sync right before
                steps.insert(at, json!({"op":"sync","dev":d}));
            }
        }
        if ur.chance(1, 3) {
            let at = 2 + ur.below(steps.len() as u64 - 1) as usize;
            steps.insert(at, json!({"op":"upgrade_server"}));
        }
    }
    steps.push(json!({"op":"quiesce","pin":true,"order":r.next_u64() % 1000}));
    let skews: Vec<i64> = (0..n_dev)
        .map(|_| if skew { (r.below(7) as i64 - 3) * 400_000_000 } else { 0 })
        .collect();
    let fs_only = property == "C19";
    let server_db_draw = r.chance(1, 2);
    let device_db_draw: Vec<bool> = (0..n_dev).map(|_| r.chance(1, 2)).collect();
    Plan {
        family: "netw".into(),
        property: property.into(),
        seed,
        config: json!({
            "devices": n_dev,
            "server_db": server_db_draw && !fs_only,
            "device_db": device_db_draw.iter().map(|x| *x && !fs_only).collect::<Vec<_>>(),
            "skew_ns": skews,
            "clock_tie": r.chance(1,5),
            "system_folders": r.chance(1,2),
            "rewrite": rewrite,
            "access": if property == "C11" { r.below(4) } else { 0 },
            "b_exists_first": r.chance(1,2),
        }),
        steps,
    }
}

pub fn class_of_pub(e: &SimError) -> String {
    class_of(e)
}

fn class_of(e: &SimError) -> String {
    use sos_protocol::AsConflict;
    if e.is_hard_conflict() {
        "hard_conflict".into()
    } else if e.is_conflict() {
        "conflict".into()
    } else {
        match e {
            SimError::Transport(_) => "neterr".into(),
            SimError::Status(c, _) => format!("http{c}"),
            _ => "err".into(),
        }
    }
}

impl NetWorld {
    pub async fn ensure_bridge(&mut self, i: usize) -> Result<(), String> {
        if self.devices[i].bridge.is_none() {
            let shared = self.devices[i].dev.shared();
            let b = SimBridge::new(&self.net, i, shared, self.devices[i].online.clone())
                .await
                .map_err(|e| format!("bridge: {e}"))?;
            self.devices[i].bridge = Some(b);
        }
        Ok(())
    }

    /// What `NetworkAccount` does after a history rewrite (compaction, folder
    /// password change, cipher change): push the rewritten identity and folder
    /// logs to the server with `update_account` (force update).
    pub async fn push_rewrite(&mut self, i: usize, rec: &mut Recorder) -> String {
        use sos_core::events::EventLog;
        use sos_protocol::SyncClient;
        use sos_sync::{StorageEventLogs, UpdateSet};
        if let Err(e) = self.ensure_bridge(i).await {
            return format!("err:{e}");
        }
        let client = self.devices[i].bridge.as_ref().unwrap().client.clone();
        let set = {
            let a = self.devices[i].dev.lock().await;
            let mut set = UpdateSet::default();
            if let Ok(l) = a.identity_log().await {
                let l = l.read().await;
                set.identity = l.diff_unchecked().await.ok();
            }
            if let Ok(folders) = a.folder_details().await {
                for f in folders {
                    if f.flags().is_sync_disabled() {
                        continue;
                    }
                    if let Ok(l) = a.folder_log(f.id()).await {
                        let l = l.read().await;
                        if let Ok(d) = l.diff_unchecked().await {
                            set.folders.insert(*f.id(), d);
                        }
                    }
                }
            }
            set
        };
        match client.update_account(set).await {
            Ok(()) => {
                rec.stats.probe("rewrite_pushed_with_force_update");
                "ok".into()
            }
            Err(e) => format!("err:{}", short_err(&e.to_string())),
        }
    }

    /// One sequential sync of device `i`. Returns outcome class.
    pub async fn sync(&mut self, i: usize, rec: &mut Recorder) -> String {
        if let Err(e) = self.ensure_bridge(i).await {
            return format!("err:{e}");
        }
        let bridge = self.devices[i].bridge.clone().unwrap();
        crate::interpose::clock_set_offset(self.devices[i].skew_ns);
        let res = bridge.execute_sync(&SyncOptions::default()).await;
        crate::interpose::clock_set_offset(0);
        let class = match &res {
            Ok(_) => "ok".to_string(),
            Err(e) => class_of(e),
        };
        self.devices[i].last_sync_ok = res.is_ok();
        self.devices[i].last_err = match &res {
            Ok(_) => String::new(),
            Err(e) => normalise_err(&e.to_string()),
        };
        if let Err(e) = &res {
            rec.stats.count(&format!("sync.{class}"));
            if class == "err" || class.starts_with("http") {
                rec.observe(&format!("sync error: {e}"));
                if rec.log.len() < 400 {
                    let last: Vec<String> = {
                        let l = self.net.0.log.lock().unwrap();
                        l.iter().rev().take(4).rev().map(|d| format!("{}:{}", d.kind, d.status)).collect()
                    };
                    rec.log.push(format!("   sync d{i} error: {} [{}]", short_err(&e.to_string()), last.join(" ")));
                }
            }
        } else {
            rec.stats.count("sync.ok");
        }
        let _ = self.devices[i].dev.refresh_from_served(N_SLOTS).await;
        class
    }
}

pub async fn execute(plan: Plan, dir: &Path) -> RunOutcome {
    let mut rec = Recorder::default();
    let prop = plan.property.clone();
    let cfg = plan.config.clone();
    let n_dev = jusize(&cfg, "devices").clamp(2, 3);
    let dev_db: Vec<bool> = cfg
        .get("device_db")
        .and_then(|v| v.as_array())
        .map(|a| a.iter().map(|x| x.as_bool().unwrap_or(false)).collect())
        .unwrap_or_default();
    let skews: Vec<i64> = cfg
        .get("skew_ns")
        .and_then(|v| v.as_array())
        .map(|a| a.iter().map(|x| x.as_i64().unwrap_or(0)).collect())
        .unwrap_or_default();
    let has_external_files = plan.steps.iter().any(|s| jstr(s, "op") == "xcreate");
    if has_external_files {
        // see filew.rs: keeps age's scrypt calibration at its probe work factor
        // (a zero tick would make the calibration loop raise the work factor
        // until the probe takes measurable time, i.e. for ever)
        crate::interpose::clock_set_tick(2_000_000_000);
    }
    if jbool(&cfg, "clock_tie") && !has_external_files {
        // identical timestamps on different devices become likely
        crate::interpose::clock_set_tick(0);
    }
    macro_rules! harness_err {
        ($rec:expr, $plan:expr, $msg:expr) => {{
            let mut o = $rec.finish($plan);
            o.harness_error = Some($msg);
            return o;
        }};
    }
    // device 0 creates the account
    let kind0 = if dev_db.first().copied().unwrap_or(false) { BackendKind::Db } else { BackendKind::Fs };
    let d0 = match Device::create("d0", &dir.join("d0"), kind0, "net world password 1", jbool(&cfg, "system_folders")).await {
        Ok(d) => d,
        Err(e) => harness_err!(rec, plan, format!("create account: {e}")),
    };
    // C11: a second account, possibly excluded by the server's access lists
    let access = ju64(&cfg, "access");
    let mut extra: Vec<NetDevice> = vec![];
    let mut server_cfg: Option<sos_server::ServerConfig> = None;
    let access_mode = ["none", "allow_list_without_b", "deny_list_with_b", "b_on_allow_and_deny_list"][(access % 4) as usize].to_string();
    if prop == "C11" {
        match Device::create("e0", &dir.join("e0"), BackendKind::Fs, "other account password 2", false).await {
            Ok(e0) => {
                let a_id = d0.account_id;
                let b_id = e0.account_id;
                let mut c = sos_server::ServerConfig::default();
                let set = |v: Vec<sos_core::AccountId>| Some(v.into_iter().collect::<std::collections::HashSet<_>>());
                c.access = match access % 4 {
                    1 => Some(sos_server::AccessControlConfig { allow: set(vec![a_id]), deny: None }),
                    2 => Some(sos_server::AccessControlConfig { allow: None, deny: set(vec![b_id]) }),
                    3 => Some(sos_server::AccessControlConfig { allow: set(vec![a_id, b_id]), deny: set(vec![b_id]) }),
                    _ => None,
                };
                server_cfg = Some(c);
                extra.push(NetDevice {
                    dev: e0,
                    online: Arc::new(AtomicBool::new(true)),
                    bridge: None,
                    skew_ns: 0,
                    own: Default::default(),
                    last_sync_ok: false,
                    last_err: String::new(),
                });
            }
            Err(e) => harness_err!(rec, plan, format!("create second account: {e}")),
        }
    }
    // when the second account is to exist on the server *before* it is
    // excluded, the server first runs without access lists and is restarted
    // with them once the account has been created
    let b_exists_first = prop == "C11" && jbool(&cfg, "b_exists_first") && access % 4 != 0;
    let restricted_cfg = if b_exists_first { server_cfg.take() } else { None };
    let server = match SimServer::start(&dir.join("server"), jbool(&cfg, "server_db"), server_cfg).await {
        Ok(s) => s,
        Err(e) => harness_err!(rec, plan, format!("server: {e}")),
    };
    let net = SimNet::new(server.router.clone());
    let mut world = NetWorld {
        server,
        net,
        devices: vec![NetDevice {
            dev: d0,
            online: Arc::new(AtomicBool::new(true)),
            bridge: None,
            skew_ns: skews.first().copied().unwrap_or(0),
            own: Default::default(),
            last_sync_ok: false,
            last_err: String::new(),
        }],
        base: Default::default(),
        extra,
        other_account: None,
        excluded_device: None,
        access_mode,
        revoked_key: None,
        scanner: if prop == "C03" { Some(crate::plainscan::Scanner::new()) } else { None },
        root: dir.to_path_buf(),
    };
    if prop == "C03" {
        world.devices[0].dev.marker_labels = true;
        world.net.0.tap_on.store(true, SeqCst);
        crate::interpose::disk_watch(&[dir], false, true);
        // the account password is secret material too
        crate::device::marker_custom("net world password 1", "account.password");
    }
    if std::env::var("SOSSIM_TRACE").is_ok() { eprintln!("setup: initial sync"); }
    // first sync creates the account on the server
    let c = world.sync(0, &mut rec).await;
    if c != "ok" {
        harness_err!(rec, plan, format!("initial sync: {c}"));
    }
    if std::env::var("SOSSIM_TRACE").is_ok() { eprintln!("setup: copy devices"); }
    if prop == "C11" && !world.extra.is_empty() {
        // the second account tries to create itself on the server
        let shared = world.extra[0].dev.shared();
        match SimBridge::new(&world.net, 50, shared, world.extra[0].online.clone()).await {
            Ok(b) => {
                let r = b.execute_sync(&SyncOptions::default()).await;
                let mut excluded = world.access_mode != "none";
                if let Some(cfg2) = restricted_cfg {
                    // the account exists now; restart the server with the
                    // access lists that exclude it
                    if r.is_err() {
                        harness_err!(rec, plan, format!("second account sync before restriction: {:?}", r.err().map(|e| e.to_string())));
                    }
                    rec.stats.probe("c11.account_excluded_after_it_existed");
                    world.net.set_router(None);
                    let db = world.server.use_db;
                    let sdir = world.server.dir.clone();
                    match SimServer::start(&sdir, db, Some(cfg2)).await {
                        Ok(s2) => {
                            world.net.set_router(Some(s2.router.clone()));
                            world.server = s2;
                        }
                        Err(e) => harness_err!(rec, plan, format!("server restart: {e}")),
                    }
                    world.excluded_device = Some(0);
                    excluded = false; // handled: skip the create-by-sync judgement below
                    world.extra[0].bridge = Some(b.clone());
                }
                let already = world.excluded_device.is_some();
                match (&r, excluded) {
                    _ if already => {}
                    (Ok(_), false) => world.other_account = Some(world.extra[0].dev.account_id),
                    (Ok(_), true) => {
                        rec.violate(
                            "C11",
                            &format!("C11/excluded_account_served/{}/create_by_sync", world.access_mode),
                            format!("access config '{}': the excluded account created itself on the server", world.access_mode),
                        );
                        world.excluded_device = Some(0);
                    }
                    (Err(_), true) => world.excluded_device = Some(0),
                    (Err(e), false) => harness_err!(rec, plan, format!("second account sync: {e}")),
                }
                world.extra[0].bridge = Some(b);
            }
            Err(e) => harness_err!(rec, plan, format!("bridge e0: {e}")),
        }
        let c = crate::authw::excluded_account_sweep(&mut world, &mut rec).await;
        rec.observe(&c);
    }
    // other devices start as copies of device 0 (same device key), as the
    // repository's own multi-device tests do
    {
        let account_id = world.devices[0].dev.account_id;
        let password = world.devices[0].dev.password.clone();
        let src = world.devices[0].dev.dir.clone();
        let kind = world.devices[0].dev.kind;
        world.devices[0].dev.account = None;
        world.devices[0].bridge = None;
        tokio::task::yield_now().await;
        for i in 1..n_dev {
            let dst = dir.join(format!("d{i}"));
            if let Err(e) = snapshot_dir(&src, &dst).await {
                harness_err!(rec, plan, format!("copy device: {e}"));
            }
            match Device::open_existing(&format!("d{i}"), &dst, kind, account_id, password.clone()).await {
                Ok(mut d) => {
                    d.model.fslots = world.devices[0].dev.model.fslots.clone();
                    d.marker_labels = world.devices[0].dev.marker_labels;
                    world.devices.push(NetDevice {
                        dev: d,
                        online: Arc::new(AtomicBool::new(true)),
                        bridge: None,
                        skew_ns: skews.get(i).copied().unwrap_or(0),
                        own: Default::default(),
                        last_sync_ok: false,
                        last_err: String::new(),
                    });
                }
                Err(e) => harness_err!(rec, plan, format!("open copied device: {e}")),
            }
        }
        if let Err(e) = world.devices[0].dev.open().await {
            harness_err!(rec, plan, format!("reopen d0: {e}"));
        }
    }
    if std::env::var("SOSSIM_TRACE").is_ok() { eprintln!("setup: base logs"); }
    // the common ancestor of everything that follows
    world.base = no::device_logs(&world.devices[0].dev).await.unwrap_or_default();

    let steps = plan.steps.clone();
    let mut pending_fault: Option<(String, u64)> = None;
    for (idx, s) in steps.iter().enumerate() {
        rec.step = idx;
        let opn = jstr(s, "op");
        let di = jusize(s, "dev") % world.devices.len();
        if std::env::var("SOSSIM_TRACE").is_ok() {
            eprintln!("step {idx}: {s}");
        }
        let class: String = match opn.as_str() {
            "sync" => {
                if let Some((kind, nth)) = pending_fault.take() {
                    let at = world.net.0.seq.load(SeqCst) + nth;
                    let mut f = world.net.0.faults.lock().unwrap();
                    if kind == "drop_request" {
                        f.drop_request_at.push(at);
                    } else {
                        f.drop_response_at.push(at);
                    }
                }
                let before = no::known_logs(&world, di).await;
                let c = world.sync(di, &mut rec).await;
                if c == "ok" {
                    no::check_success_means_equal(&mut world, di, &mut rec, &before).await;
                }
                c
            }
            "syncall" => {
                let mut cs = vec![];
                for i in 0..world.devices.len() {
                    cs.push(world.sync(i, &mut rec).await);
                }
                // everything synced so far is the shared prefix
                world.base = no::device_logs(&world.devices[0].dev).await.unwrap_or_default();
                for d in world.devices.iter_mut() {
                    d.own = Default::default();
                }
                cs.join("/")
            }
            "offline" => {
                world.devices[di].online.store(false, SeqCst);
                rec.stats.fault("net.partition");
                "ok".into()
            }
            "online" => {
                world.devices[di].online.store(true, SeqCst);
                "ok".into()
            }
            "fault" => {
                pending_fault = Some((jstr(s, "kind"), ju64(s, "nth")));
                "armed".into()
            }
            "csync" => no::concurrent_sync(&mut world, s, &mut rec).await,
            "quiesce" => {
                pending_fault = None;
                {
                    let mut f = world.net.0.faults.lock().unwrap();
                    f.drop_request_at.clear();
                    f.drop_response_at.clear();
                }
                no::quiesce_and_check(&mut world, s, &mut rec, &prop).await
            }
            "restart" => {
                world.devices[di].bridge = None;
                let r = world.devices[di].dev.exec(s, &mut rec, 0).await;
                if r.starts_with("err") {
                    // the account on this device no longer opens: a verdict for
                    // the convergence property (a replica that cannot sign in
                    // never converges), and the end of this run
                    let tag = if world.devices.iter().any(|d| d.own.rewritten) { "/after_history_rewrite" } else { "" };
                    rec.violate(
                        "C04",
                        &format!("C04/not_converged/device_no_longer_opens/{}{tag}", normalise_err(&r)),
                        format!("d{di}: a fresh account over the persisted storage does not sign in: {r}"),
                    );
                    rec.stats.probe("restart_failed_run_truncated");
                    rec.step(idx, &opn, "err", &format!("d{di} {r}"));
                    break;
                }
                r
            }
            "upgrade" => crate::upgradew::upgrade_device(&mut world, di, s, &mut rec).await,
            "upgrade_server" => crate::upgradew::upgrade_server(&mut world, &mut rec).await,
            "trust" => no::trust_op(&mut world, di, s, &mut rec).await,
            "stale_patch" => no::stale_patch_op(&mut world, di, s, &mut rec).await,
            "forge" => crate::authw::forge_sweep(&mut world, s, &mut rec).await,
            "export" => no::export_op(&mut world, di, idx).await,
            "revoke_flow" => no::revoke_flow(&mut world, di, &mut rec).await,
            _ => {
                // a local edit on device di
                let before = no::device_log_lens(&world.devices[di].dev).await;
                crate::interpose::clock_set_offset(world.devices[di].skew_ns);
                let c = world.devices[di].dev.exec(s, &mut rec, 0).await;
                crate::interpose::clock_set_offset(0);
                if matches!(opn.as_str(), "compact" | "chpw_folder" | "chcipher") && c == "ok" {
                    rec.stats.probe("history_rewrite");
                    world.devices[di].own.rewritten = true;
                    if jbool(s, "push") && world.devices[di].online.load(SeqCst) {
                        let p = world.push_rewrite(di, &mut rec).await;
                        rec.observe(&format!("push_rewrite {p}"));
                    }
                }
                no::record_own_commits(&mut world.devices[di], before).await;
                c
            }
        };
        let class_short = class.split(':').next().unwrap_or("").to_string();
        if world.scanner.is_some() {
            no::plaintext_scan(&mut world, &mut rec).await;
        }
        // per-step oracles on every device
        if opn != "fault" && opn != "offline" && opn != "online" {
            no::per_step_checks(&mut world, &mut rec, &prop, &opn).await;
        }
        rec.step(idx, &opn, &class_short, &format!("d{di} {}", if class.len() > class_short.len() { class.clone() } else { String::new() }));
        for d in &world.devices {
            rec.observe(&serde_json::to_string(&d.dev.model.folders).unwrap_or_default());
        }
    }
    for (k, v) in world.net.0.fault_counts.lock().unwrap().iter() {
        *rec.stats.faults.entry(k.clone()).or_default() += v;
    }
    rec.stats.count_n("deliveries", world.net.0.seq.load(SeqCst));
    rec.stats.sim_time_s =
        (crate::interpose::clock_now() - crate::interpose::CLOCK_BASE_NS) as f64 / 1e9;
    drop(world);
    rec.finish(plan)
}

#[allow(dead_code)]
fn _v(_: Value) {}

/// Error text with ids, hashes and numbers removed (a stable class key).
pub fn normalise_err(e: &str) -> String {
    let mut out = String::new();
    let mut last_us = false;
    // quoted parts are ids / paths
    let mut plain = String::new();
    let mut in_q = false;
    for c in e.chars() {
        if c == '\'' || c == '"' {
            in_q = !in_q;
            plain.push(' ');
        } else if !in_q {
            plain.push(c);
        }
    }
    for w in plain.split(|c: char| !(c.is_ascii_alphabetic())) {
        if w.len() < 3 {
            continue;
        }
        // hex-looking words are ids
        if w.chars().all(|c| c.is_ascii_hexdigit()) {
            continue;
        }
        if !out.is_empty() && !last_us {
            out.push('_');
        }
        out.push_str(&w.to_lowercase());
        last_us = false;
        if out.len() > 48 {
            break;
        }
    }
    out
}

//! C18: backup archives.
//!
//! Runs at the end of a single-device history (family `acct`): the account is
//! exported through the normal API, imported into empty storage of the same
//! backend and compared with the model (folders, flags, descriptions, every
//! decrypted secret, external file blobs). Then the archive is damaged the way
//! a disk or a hostile sender would (content byte, manifest checksum, extra
//! entries whose names try to leave the target directory, duplicate names) and
//! imported into fresh storage that sits inside a sentinel directory: a
//! rejected import must not leave an account behind, and nothing may be
//! written outside the import target.

use crate::common::*;
use crate::device::*;
use sos_backend::archive::{export_backup_archive, import_backup_archive};
use sos_account::Account;
use sos_core::AccountId;
use std::collections::BTreeMap;
use std::path::{Path, PathBuf};
use tokio::io::BufReader;

async fn read_entries(zip: &Path) -> Result<Vec<(String, Vec<u8>)>, String> {
    let f = tokio::fs::File::open(zip).await.map_err(|e| e.to_string())?;
    let mut r = sos_archive::ZipReader::new(BufReader::new(f)).await.map_err(|e| e.to_string())?;
    let mut names = vec![];
    for i in 0..r.inner().file().entries().len() {
        let e = r.inner().file().entries().get(i).unwrap();
        let n = e.filename().as_str().map_err(|e| e.to_string())?.to_string();
        names.push(n);
    }
    let mut out = vec![];
    for n in names {
        if n.ends_with('/') {
            continue;
        }
        match r.by_name(&n).await {
            Ok(Some(b)) => out.push((n, b)),
            Ok(None) => {}
            Err(e) => return Err(format!("entry {n}: {e}")),
        }
    }
    Ok(out)
}

async fn write_entries(zip: &Path, entries: &[(String, Vec<u8>)]) -> Result<(), String> {
    let f = tokio::fs::File::create(zip).await.map_err(|e| e.to_string())?;
    let mut w = sos_archive::ZipWriter::new(f);
    for (n, b) in entries {
        w.add_file(n, b).await.map_err(|e| format!("add {n}: {e}"))?;
    }
    use tokio::io::AsyncWriteExt;
    let mut inner = w.finish().await.map_err(|e| e.to_string())?.into_inner();
    inner.flush().await.map_err(|e| e.to_string())?;
    Ok(())
}

pub fn tree(root: &Path, skip: &Path) -> BTreeMap<String, String> {
    let mut out = BTreeMap::new();
    fn walk(base: &Path, p: &Path, skip: &Path, out: &mut BTreeMap<String, String>) {
        let Ok(rd) = std::fs::read_dir(p) else { return };
        for e in rd.flatten() {
            let path = e.path();
            if path == skip {
                continue;
            }
            let rel = path.strip_prefix(base).unwrap_or(&path).to_string_lossy().to_string();
            if path.is_dir() {
                out.insert(format!("{rel}/"), String::new());
                walk(base, &path, skip, out);
            } else if let Ok(b) = std::fs::read(&path) {
                out.insert(rel, sha256_hex(&b));
            }
        }
    }
    walk(root, root, skip, &mut out);
    out
}

async fn account_exists(dir: &Path, kind: BackendKind, id: &AccountId) -> bool {
    match make_target(dir, kind).await {
        Ok(t) => match t.list_accounts().await {
            Ok(l) => l.iter().any(|a| a.account_id() == id),
            Err(_) => false,
        },
        Err(_) => false,
    }
}

async fn blobs_of(dir: &Path, kind: BackendKind, id: &AccountId) -> BTreeMap<String, String> {
    let mut out = BTreeMap::new();
    let paths = sos_core::Paths::new_client(dir).with_account_id(id);
    let _ = kind;
    for p in [paths.into_files_dir()] {
        if p.exists() {
            for (k, v) in tree(&p, Path::new("/nonexistent")) {
                if !k.ends_with('/') {
                    out.insert(k, v);
                }
            }
        }
    }
    out
}

pub async fn archive_checks(dev: &mut Device, rec: &mut Recorder, seed: u64) {
    let backend = dev.kind.name();
    let kind = dev.kind;
    let id = dev.account_id;
    let root = dev.dir.parent().unwrap_or(Path::new("/dev/shm")).join("c18");
    let _ = std::fs::create_dir_all(&root);
    let zip = root.join("backup.zip");
    // the model is what the account served before the export
    let expect = dev.model.folders.clone();
    let target = {
        let a = dev.lock().await;
        a.backend_target().await
    };
    if let Err(e) = export_backup_archive(&zip, &target, &id).await {
        rec.violate("C18", &format!("C18/{backend}/export_failed"), format!("{e}"));
        return;
    }
    drop(target);
    rec.stats.count("c18.exports");
    let original_blobs = blobs_of(&dev.dir, kind, &id).await;

    // ---- restore into empty storage of the same backend
    let imp = root.join("import");
    match make_target(&imp, kind).await {
        Ok(t) => {
            let r = import_backup_archive(&zip, &t).await;
            drop(t);
            match r {
                Ok(accounts) => {
                    if !accounts.iter().any(|a| a.account_id() == &id) {
                        rec.violate("C18", &format!("C18/{backend}/import_lists_other_account"), format!("{accounts:?}"));
                    }
                    match Device::open_existing("imported", &imp, kind, id, dev.password.clone()).await {
                        Ok(mut d2) => {
                            rec.stats.count("c18.imports");
                            match d2.snapshot().await {
                                Ok(s) => {
                                    if let Some(d) = diff_snap(&expect, &s) {
                                        rec.violate(
                                            "C18",
                                            &format!("C18/{backend}/restored_account_differs"),
                                            format!("after export + import into empty storage: {d}"),
                                        );
                                    }
                                }
                                Err(e) => rec.violate("C18", &format!("C18/{backend}/restored_account_unreadable"), e),
                            }
                            // replay == served == mirror must hold for the restored account too
                            crate::netoracle::check_replay_as(&mut d2, rec, "import", false, "C18").await;
                            let restored_blobs = blobs_of(&imp, kind, &id).await;
                            if restored_blobs != original_blobs {
                                let missing: Vec<&String> = original_blobs.keys().filter(|k| !restored_blobs.contains_key(*k)).take(3).collect();
                                let extra: Vec<&String> = restored_blobs.keys().filter(|k| !original_blobs.contains_key(*k)).take(3).collect();
                                rec.violate(
                                    "C18",
                                    &format!("C18/{backend}/restored_attachments_differ"),
                                    format!("external file blobs after restore: missing {missing:?} extra {extra:?} (original {}, restored {})", original_blobs.len(), restored_blobs.len()),
                                );
                            }
                            rec.stats.count_n("c18.attachments_compared", original_blobs.len() as u64);
                        }
                        Err(e) => rec.violate(
                            "C18",
                            &format!("C18/{backend}/restored_account_does_not_sign_in"),
                            format!("same password after import: {e}"),
                        ),
                    }
                }
                Err(e) => rec.violate("C18", &format!("C18/{backend}/valid_archive_rejected"), format!("{e}")),
            }
        }
        Err(e) => {
            rec.observe(&format!("c18 target: {e}"));
            return;
        }
    }

    // ---- damaged and hostile archives
    let entries = match read_entries(&zip).await {
        Ok(e) => e,
        Err(e) => {
            rec.violate("C18", &format!("C18/{backend}/own_archive_unreadable"), e);
            return;
        }
    };
    if entries.is_empty() {
        return;
    }
    let mut rng = crate::rng::Rng::new(seed).fork("c18");
    let manifest_idx = entries.iter().position(|(n, _)| n == sos_archive::ARCHIVE_MANIFEST);
    let data_idx: Vec<usize> = (0..entries.len()).filter(|i| Some(*i) != manifest_idx && !entries[*i].1.is_empty()).collect();
    let vault_entry = entries
        .iter()
        .find(|(n, _)| n.ends_with(".vault") || n.ends_with(".db"))
        .map(|(n, _)| n.clone());
    let files_prefix = entries.iter().find(|(n, _)| n.starts_with("files/") || n.starts_with("blobs/")).map(|(n, _)| {
        let parts: Vec<&str> = n.split('/').collect();
        parts[..parts.len().min(3).max(1) - 0].join("/")
    });
    #[derive(Clone)]
    struct Case {
        label: String,
        entries: Vec<(String, Vec<u8>)>,
        must_reject: bool,
        evil: Option<String>,
    }
    let mut cases: Vec<Case> = vec![];
    // (a) one content byte of a checksummed entry
    for _ in 0..2 {
        if data_idx.is_empty() {
            break;
        }
        let i = data_idx[rng.below(data_idx.len() as u64) as usize];
        let mut e = entries.clone();
        let k = rng.below(e[i].1.len() as u64) as usize;
        e[i].1[k] ^= 1 << rng.below(8);
        let what = if e[i].0.starts_with("files/") || e[i].0.starts_with("blobs/") { "attachment" } else { "entry" };
        cases.push(Case { label: format!("content_byte_flipped_in_{what}"), entries: e, must_reject: what == "entry", evil: None });
    }
    // (b) a checksum in the manifest
    if let Some(mi) = manifest_idx {
        let mut e = entries.clone();
        let text = String::from_utf8_lossy(&e[mi].1).to_string();
        // first 64-hex-digit run
        let bytes = text.as_bytes();
        let mut start = None;
        let mut run = 0;
        for (p, c) in bytes.iter().enumerate() {
            if c.is_ascii_hexdigit() {
                run += 1;
                if run == 64 {
                    start = Some(p + 1 - 64);
                    break;
                }
            } else {
                run = 0;
            }
        }
        if let Some(st) = start {
            let mut b = bytes.to_vec();
            let k = st + rng.below(64) as usize;
            b[k] = if b[k] == b'0' { b'1' } else { b'0' };
            e[mi].1 = b;
            cases.push(Case { label: "manifest_checksum_altered".into(), entries: e, must_reject: true, evil: None });
        }
    }
    // (b1) a checksum in the manifest shortened to a proper prefix of the real
    // one, or emptied (with the content of a checksummed entry altered as well in
    // the second form): a prefix or nothing is not a match. Every 64-hex-digit
    // run of either manifest format is a checksum; which one is drawn from an
    // independent stream so that the other cases of a seed are unchanged.
    if let Some(mi) = manifest_idx {
        let mut r2 = crate::rng::Rng::new(seed).fork("c18.checksum_length");
        let text = String::from_utf8_lossy(&entries[mi].1).to_string();
        let bytes = text.as_bytes();
        let mut runs: Vec<usize> = vec![];
        let mut run = 0usize;
        for (p, c) in bytes.iter().enumerate() {
            if c.is_ascii_hexdigit() {
                run += 1;
            } else {
                if run == 64 {
                    runs.push(p - 64);
                }
                run = 0;
            }
        }
        if !runs.is_empty() {
            let st = runs[r2.below(runs.len() as u64) as usize];
            let keep = *r2.pick(&[2usize, 8, 32, 62]);
            let mut e = entries.clone();
            let mut b = bytes[..st + keep].to_vec();
            b.extend_from_slice(&bytes[st + 64..]);
            e[mi].1 = b;
            cases.push(Case { label: "manifest_checksum_truncated".into(), entries: e, must_reject: true, evil: None });
            // every checksum emptied and one byte of every checksummed entry altered
            let mut e = entries.clone();
            let mut b: Vec<u8> = vec![];
            let mut last = 0usize;
            for st in &runs {
                b.extend_from_slice(&bytes[last..*st]);
                last = st + 64;
            }
            b.extend_from_slice(&bytes[last..]);
            e[mi].1 = b;
            for i in &data_idx {
                let n = &e[*i].0;
                if n.starts_with("files/") || n.starts_with("blobs/") {
                    continue;
                }
                let k = e[*i].1.len() - 1;
                e[*i].1[k] ^= 0x01;
            }
            cases.push(Case { label: "manifest_checksums_emptied_and_entries_altered".into(), entries: e, must_reject: true, evil: None });
        }
    }
    // (b2) an entry the manifest names is missing
    if !data_idx.is_empty() {
        let i = data_idx[rng.below(data_idx.len() as u64) as usize];
        let mut e = entries.clone();
        let what = if e[i].0.starts_with("files/") || e[i].0.starts_with("blobs/") { "attachment" } else { "entry" };
        e.remove(i);
        cases.push(Case { label: format!("{what}_removed"), entries: e, must_reject: what == "entry", evil: None });
    }
    // (c) entry names that try to leave the target
    let fp = files_prefix.clone().unwrap_or_else(|| format!("files/{}", uuid::Uuid::new_v4()));
    let hostile_names: Vec<(String, String)> = vec![
        ("dotdot".into(), "../evil-c18.txt".into()),
        ("dotdot2".into(), "../../evil-c18.txt".into()),
        ("files_dotdot".into(), format!("{fp}/../../../../evil-c18.txt")),
        ("files_deep_dotdot".into(), format!("{fp}/../../../../../../../../evil-c18.txt")),
        ("backslash_dotdot".into(), "..\\..\\evil-c18.txt".into()),
        ("drive".into(), "C:\\evil-c18.txt".into()),
        ("absolute".into(), "ABS".into()),
    ];
    for (label, name) in hostile_names {
        let mut e = entries.clone();
        cases.push(Case { label: format!("entry_name_{label}"), entries: { e.push((name.clone(), b"evil".to_vec())); e }, must_reject: false, evil: Some(name) });
    }
    // (d) duplicate name with other content
    if let Some(v) = vault_entry {
        let mut e = entries.clone();
        e.push((v, b"not a vault".to_vec()));
        cases.push(Case { label: "duplicate_entry_name".into(), entries: e, must_reject: false, evil: None });
    }

    for (ci, case) in cases.into_iter().enumerate() {
        let jail = root.join(format!("h{ci}"));
        let tdir = jail.join("outer").join("target");
        let _ = std::fs::create_dir_all(&tdir);
        let _ = std::fs::write(jail.join("sentinel.txt"), b"sentinel");
        let _ = std::fs::write(jail.join("outer").join("sentinel.txt"), b"sentinel");
        let hz = jail.join("hostile.zip");
        let mut ents = case.entries.clone();
        let abs_evil = jail.join("abs-evil-c18.txt");
        for (n, _) in ents.iter_mut() {
            if n == "ABS" {
                *n = abs_evil.to_string_lossy().to_string();
            }
        }
        if let Err(e) = write_entries(&hz, &ents).await {
            rec.observe(&format!("c18 write hostile: {e}"));
            continue;
        }
        let t = match make_target(&tdir, kind).await {
            Ok(t) => t,
            Err(_) => continue,
        };
        let before = tree(&jail, &tdir);
        rec.stats.fault(&format!("archive.{}", case.label));
        // on its own task: a panic inside the import is a verdict, not a harness crash
        let hz2 = hz.clone();
        let joined = tokio::spawn(async move {
            let r = import_backup_archive(&hz2, &t).await;
            drop(t);
            r.map(|_| ()).map_err(|e| e.to_string())
        })
        .await;
        let res: Result<(), String> = match joined {
            Ok(r) => r,
            Err(e) => {
                rec.violate(
                    "C18",
                    &format!("C18/{backend}/import_panicked/{}", case.label),
                    format!("import of a damaged archive panicked instead of returning an error: {e}"),
                );
                Err("panic".into())
            }
        };
        let after = tree(&jail, &tdir);
        rec.case(&format!("c18:{backend}:{}:{}", case.label, if res.is_ok() { "accepted" } else { "rejected" }));
        if before != after {
            let added: Vec<&String> = after.keys().filter(|k| !before.contains_key(*k)).take(4).collect();
            rec.violate(
                "C18",
                &format!("C18/{backend}/write_outside_import_target/{}", case.label),
                format!("importing an archive with entry {:?} changed files outside the target directory: {added:?}", case.evil),
            );
        }
        // also well above the jail (../.. from inside the account directory)
        for p in [root.join("evil-c18.txt"), root.parent().unwrap_or(&root).join("evil-c18.txt"), PathBuf::from("/evil-c18.txt")] {
            if p.exists() {
                rec.violate(
                    "C18",
                    &format!("C18/{backend}/write_outside_import_target/{}", case.label),
                    format!("{} was created", p.display()),
                );
                let _ = std::fs::remove_file(&p);
            }
        }
        match (&res, case.must_reject) {
            (Ok(_), true) => rec.violate(
                "C18",
                &format!("C18/{backend}/damaged_archive_accepted/{}", case.label),
                "import succeeded although an entry does not match its manifest checksum".into(),
            ),
            (Err(_), true) => {
                if account_exists(&tdir, kind, &id).await {
                    rec.violate(
                        "C18",
                        &format!("C18/{backend}/rejected_import_left_an_account/{}", case.label),
                        "the import returned an error but the target storage now lists the account".into(),
                    );
                }
            }
            (Ok(_), false) => {
                // accepted: then it must be the same account
                if let Ok(mut d3) = Device::open_existing("imported-h", &tdir, kind, id, dev.password.clone()).await {
                    if let Ok(s) = d3.snapshot().await {
                        if let Some(d) = diff_snap(&expect, &s) {
                            rec.violate(
                                "C18",
                                &format!("C18/{backend}/hostile_archive_changed_restored_content/{}", case.label),
                                d,
                            );
                        }
                    }
                }
            }
            (Err(_), false) => {}
        }
    }
}

//! Seams owned by the simulator, installed by *symbol interposition* in the
//! simulator binary (no change to /repo):
//!
//! * `getrandom`      — all OS randomness (uuid v4, AEAD nonces, salts, keys,
//!                      `HashMap` `RandomState`) comes from a seeded stream.
//! * `clock_gettime`  — `CLOCK_REALTIME` is the simulated wall clock.
//! * `write`/`pwrite`/`ftruncate`/`rename`/`unlink`/`open(O_TRUNC|O_CREAT)`…
//!                    — every mutating file-system call under a watched root
//!                      is counted, traced, optionally tapped (bytes kept for
//!                      the plaintext scanner) and can be the *crash point*:
//!                      the call is torn after `j` bytes and the process dies
//!                      with `_exit`, exactly like a killed process.
//!
//! All of these are resolved at link time (the executable's own definition
//! wins over libc's) and, for callers that use `dlsym`, through `-rdynamic`.

#![allow(clippy::missing_safety_doc)]

use libc::{c_char, c_int, c_uint, c_void, off_t, size_t, ssize_t};
use std::cell::Cell;
use std::sync::atomic::{AtomicBool, AtomicI64, AtomicU64, Ordering::*};
use std::sync::Mutex;

// ---------------------------------------------------------------- randomness

const GAMMA: u64 = 0x9E37_79B9_7F4A_7C15;

static RNG_MAIN: AtomicU64 = AtomicU64::new(0x5EED_0000_0000_0001);
static RNG_AUX: AtomicU64 = AtomicU64::new(0x5EED_0000_0000_0002);
pub static RNG_DRAWS: AtomicU64 = AtomicU64::new(0);

thread_local! {
    static IS_MAIN: Cell<bool> = const { Cell::new(false) };
}

#[inline]
fn mix(mut z: u64) -> u64 {
    z = (z ^ (z >> 30)).wrapping_mul(0xBF58_476D_1CE4_E5B9);
    z = (z ^ (z >> 27)).wrapping_mul(0x94D0_49BB_1331_11EB);
    z ^ (z >> 31)
}

fn next(state: &AtomicU64) -> u64 {
    let s = state.fetch_add(GAMMA, Relaxed).wrapping_add(GAMMA);
    mix(s)
}

/// Mark the calling thread as the simulation's main thread and seed both
/// streams. Threads other than the main one (tokio blocking pool, sqlite
/// worker) draw from a separate stream so that thread start-up order cannot
/// shift the main stream.
pub fn seed_rng(seed: u64) {
    IS_MAIN.with(|c| c.set(true));
    RNG_MAIN.store(mix(seed ^ 0xA11C_E5ED), SeqCst);
    RNG_AUX.store(mix(seed ^ 0x0B0B_5EED), SeqCst);
}

/// Re-seed the main stream (used at step boundaries so that removing a step
/// while shrinking disturbs later steps as little as possible).
pub fn reseed_main(seed: u64) {
    RNG_MAIN.store(mix(seed ^ 0xA11C_E5ED), SeqCst);
}

#[no_mangle]
pub unsafe extern "C" fn getrandom(
    buf: *mut c_void,
    len: size_t,
    _flags: c_uint,
) -> ssize_t {
    if len == 0 || buf.is_null() {
        return 0;
    }
    let is_main = IS_MAIN.try_with(|c| c.get()).unwrap_or(false);
    let st = if is_main { &RNG_MAIN } else { &RNG_AUX };
    RNG_DRAWS.fetch_add(1, Relaxed);
    let out = std::slice::from_raw_parts_mut(buf as *mut u8, len);
    let mut i = 0;
    while i < len {
        let v = next(st).to_le_bytes();
        let n = (len - i).min(8);
        out[i..i + n].copy_from_slice(&v[..n]);
        i += n;
    }
    len as ssize_t
}

// --------------------------------------------------------------------- clock

static CLOCK_ON: AtomicBool = AtomicBool::new(false);
static CLOCK_NS: AtomicI64 = AtomicI64::new(0);
static CLOCK_TICK: AtomicI64 = AtomicI64::new(0);
static CLOCK_OFFSET: AtomicI64 = AtomicI64::new(0);
pub static CLOCK_READS: AtomicU64 = AtomicU64::new(0);

pub const CLOCK_BASE_NS: i64 = 1_700_000_000_000_000_000;

/// Turn on the simulated wall clock: starts at `start_ns`, every read
/// advances it by `tick_ns`.
pub fn clock_enable(start_ns: i64, tick_ns: i64) {
    CLOCK_NS.store(start_ns, SeqCst);
    CLOCK_TICK.store(tick_ns, SeqCst);
    CLOCK_OFFSET.store(0, SeqCst);
    CLOCK_ON.store(true, SeqCst);
}
pub fn clock_set_tick(tick_ns: i64) {
    CLOCK_TICK.store(tick_ns, SeqCst);
}
/// Skew applied to every read (the "current device"'s clock error).
pub fn clock_set_offset(off_ns: i64) {
    CLOCK_OFFSET.store(off_ns, SeqCst);
}
pub fn clock_advance(ns: i64) {
    CLOCK_NS.fetch_add(ns, SeqCst);
}
pub fn clock_now() -> i64 {
    CLOCK_NS.load(SeqCst)
}

#[no_mangle]
pub unsafe extern "C" fn clock_gettime(
    clk: libc::clockid_t,
    tp: *mut libc::timespec,
) -> c_int {
    if clk == libc::CLOCK_REALTIME && CLOCK_ON.load(Relaxed) && !tp.is_null()
    {
        let tick = CLOCK_TICK.load(Relaxed);
        let t = CLOCK_NS.fetch_add(tick, SeqCst) + CLOCK_OFFSET.load(Relaxed);
        CLOCK_READS.fetch_add(1, Relaxed);
        (*tp).tv_sec = t.div_euclid(1_000_000_000) as libc::time_t;
        (*tp).tv_nsec = t.rem_euclid(1_000_000_000) as _;
        return 0;
    }
    libc::syscall(libc::SYS_clock_gettime, clk, tp) as c_int
}

// ---------------------------------------------------------------------- disk

#[derive(Clone, Debug, serde::Serialize, serde::Deserialize)]
pub struct DiskOp {
    pub kind: String,
    pub path: String,
    pub len: u64,
}

#[derive(Default)]
struct DiskState {
    roots: Vec<Vec<u8>>,
    count: u64,
    crash_at: Option<u64>,
    /// bytes of the crashing write that still reach the file:
    /// 0 = none, u64::MAX = all, otherwise min(tear, len)
    tear: u64,
    trace_on: bool,
    trace: Vec<DiskOp>,
    tap_on: bool,
    tapped: Vec<(String, Vec<u8>)>,
    tapped_bytes: usize,
}

static DISK_ACTIVE: AtomicBool = AtomicBool::new(false);
static DISK: Mutex<Option<DiskState>> = Mutex::new(None);
pub static DISK_MUTATIONS: AtomicU64 = AtomicU64::new(0);

thread_local! {
    static IN_HOOK: Cell<bool> = const { Cell::new(false) };
}

/// Exit status of a child that died at its armed crash point.
pub const CRASH_EXIT: i32 = 86;

/// Watch mutating calls under `roots`.
pub fn disk_watch(roots: &[&std::path::Path], trace: bool, tap: bool) {
    let mut g = DISK.lock().unwrap();
    let st = g.get_or_insert_with(Default::default);
    st.roots = roots
        .iter()
        .map(|p| p.to_string_lossy().as_bytes().to_vec())
        .collect();
    st.trace_on = trace;
    st.tap_on = tap;
    DISK_ACTIVE.store(true, SeqCst);
}

/// Arm a crash: the `k`-th (1-based) mutating call from now on under the
/// watched roots kills the process; if it is a write only `tear` bytes of it
/// are written first.
pub fn disk_arm_crash(k: u64, tear: u64) {
    let mut g = DISK.lock().unwrap();
    let st = g.get_or_insert_with(Default::default);
    st.count = 0;
    st.crash_at = Some(k);
    st.tear = tear;
}

/// Reset the step counter and trace (start of an observed operation).
pub fn disk_reset_count() {
    let mut g = DISK.lock().unwrap();
    if let Some(st) = g.as_mut() {
        st.count = 0;
        st.trace.clear();
    }
}

pub fn disk_take_trace() -> Vec<DiskOp> {
    let mut g = DISK.lock().unwrap();
    g.as_mut()
        .map(|s| std::mem::take(&mut s.trace))
        .unwrap_or_default()
}

pub fn disk_take_tapped() -> Vec<(String, Vec<u8>)> {
    let mut g = DISK.lock().unwrap();
    g.as_mut()
        .map(|s| {
            s.tapped_bytes = 0;
            std::mem::take(&mut s.tapped)
        })
        .unwrap_or_default()
}

pub fn disk_unwatch() {
    DISK_ACTIVE.store(false, SeqCst);
    let mut g = DISK.lock().unwrap();
    *g = None;
}

unsafe fn fd_path(fd: c_int, out: &mut [u8; 512]) -> usize {
    let mut name = [0u8; 40];
    // "/proc/self/fd/<n>\0"
    let prefix = b"/proc/self/fd/";
    name[..prefix.len()].copy_from_slice(prefix);
    let mut n = fd as u32;
    let mut digits = [0u8; 12];
    let mut d = 0;
    if n == 0 {
        digits[0] = b'0';
        d = 1;
    }
    while n > 0 {
        digits[d] = b'0' + (n % 10) as u8;
        n /= 10;
        d += 1;
    }
    for i in 0..d {
        name[prefix.len() + i] = digits[d - 1 - i];
    }
    let r = libc::syscall(
        libc::SYS_readlinkat,
        libc::AT_FDCWD,
        name.as_ptr(),
        out.as_mut_ptr(),
        out.len(),
    );
    if r < 0 {
        0
    } else {
        r as usize
    }
}

unsafe fn cstr_bytes<'a>(p: *const c_char) -> &'a [u8] {
    if p.is_null() {
        return &[];
    }
    std::ffi::CStr::from_ptr(p).to_bytes()
}

enum Verdict {
    /// perform the real call
    Pass,
    /// perform a partial write of this many bytes, then die
    TearThenDie(usize),
    /// die before the call has any effect
    Die,
}

/// Record one mutating call; decide its fate.
fn on_mutation(kind: &str, path: &[u8], data: Option<&[u8]>, len: u64) -> Verdict {
    if !DISK_ACTIVE.load(Relaxed) {
        return Verdict::Pass;
    }
    if IN_HOOK.try_with(|c| c.get()).unwrap_or(true) {
        return Verdict::Pass;
    }
    IN_HOOK.with(|c| c.set(true));
    let verdict = (|| {
        let mut g = match DISK.lock() {
            Ok(g) => g,
            Err(_) => return Verdict::Pass,
        };
        let st = match g.as_mut() {
            Some(s) => s,
            None => return Verdict::Pass,
        };
        let root = st.roots.iter().find(|r| path.starts_with(r));
        let root_len = match root {
            Some(r) => r.len(),
            None => return Verdict::Pass,
        };
        st.count += 1;
        DISK_MUTATIONS.fetch_add(1, Relaxed);
        let rel = String::from_utf8_lossy(&path[root_len..]).into_owned();
        if st.trace_on {
            st.trace.push(DiskOp {
                kind: kind.to_string(),
                path: rel.clone(),
                len,
            });
        }
        if st.tap_on {
            if let Some(d) = data {
                if st.tapped_bytes < (256 << 20) {
                    st.tapped_bytes += d.len();
                    st.tapped.push((rel, d.to_vec()));
                }
            }
        }
        if st.crash_at == Some(st.count) {
            if data.is_some() {
                let j = if st.tear == u64::MAX {
                    len
                } else {
                    st.tear.min(len)
                };
                return Verdict::TearThenDie(j as usize);
            }
            return Verdict::Die;
        }
        Verdict::Pass
    })();
    IN_HOOK.with(|c| c.set(false));
    verdict
}

unsafe fn die() -> ! {
    libc::_exit(CRASH_EXIT)
}

#[no_mangle]
pub unsafe extern "C" fn write(
    fd: c_int,
    buf: *const c_void,
    n: size_t,
) -> ssize_t {
    if DISK_ACTIVE.load(Relaxed) && fd > 2 {
        let mut p = [0u8; 512];
        let l = fd_path(fd, &mut p);
        if l > 0 {
            let data = std::slice::from_raw_parts(buf as *const u8, n);
            match on_mutation("write", &p[..l], Some(data), n as u64) {
                Verdict::Pass => {}
                Verdict::TearThenDie(j) => {
                    if j > 0 {
                        libc::syscall(libc::SYS_write, fd, buf, j);
                    }
                    die()
                }
                Verdict::Die => die(),
            }
        }
    }
    libc::syscall(libc::SYS_write, fd, buf, n) as ssize_t
}

#[no_mangle]
pub unsafe extern "C" fn pwrite64(
    fd: c_int,
    buf: *const c_void,
    n: size_t,
    off: off_t,
) -> ssize_t {
    if DISK_ACTIVE.load(Relaxed) && fd > 2 {
        let mut p = [0u8; 512];
        let l = fd_path(fd, &mut p);
        if l > 0 {
            let data = std::slice::from_raw_parts(buf as *const u8, n);
            match on_mutation("pwrite", &p[..l], Some(data), n as u64) {
                Verdict::Pass => {}
                Verdict::TearThenDie(j) => {
                    if j > 0 {
                        libc::syscall(libc::SYS_pwrite64, fd, buf, j, off);
                    }
                    die()
                }
                Verdict::Die => die(),
            }
        }
    }
    libc::syscall(libc::SYS_pwrite64, fd, buf, n, off) as ssize_t
}

#[no_mangle]
pub unsafe extern "C" fn pwrite(
    fd: c_int,
    buf: *const c_void,
    n: size_t,
    off: off_t,
) -> ssize_t {
    pwrite64(fd, buf, n, off)
}

#[no_mangle]
pub unsafe extern "C" fn writev(
    fd: c_int,
    iov: *const libc::iovec,
    cnt: c_int,
) -> ssize_t {
    if DISK_ACTIVE.load(Relaxed) && fd > 2 {
        let mut p = [0u8; 512];
        let l = fd_path(fd, &mut p);
        if l > 0 {
            // flatten so that the tap and the tear see one buffer
            let mut flat = Vec::new();
            for i in 0..cnt as usize {
                let v = &*iov.add(i);
                flat.extend_from_slice(std::slice::from_raw_parts(
                    v.iov_base as *const u8,
                    v.iov_len,
                ));
            }
            match on_mutation("write", &p[..l], Some(&flat), flat.len() as u64)
            {
                Verdict::Pass => {}
                Verdict::TearThenDie(j) => {
                    if j > 0 {
                        libc::syscall(libc::SYS_write, fd, flat.as_ptr(), j);
                    }
                    die()
                }
                Verdict::Die => die(),
            }
        }
    }
    libc::syscall(libc::SYS_writev, fd, iov, cnt) as ssize_t
}

unsafe fn truncate_common(fd: c_int, len: off_t) -> c_int {
    if DISK_ACTIVE.load(Relaxed) {
        let mut p = [0u8; 512];
        let l = fd_path(fd, &mut p);
        if l > 0 {
            match on_mutation("ftruncate", &p[..l], None, len as u64) {
                Verdict::Pass => {}
                _ => die(),
            }
        }
    }
    libc::syscall(libc::SYS_ftruncate, fd, len) as c_int
}

#[no_mangle]
pub unsafe extern "C" fn ftruncate64(fd: c_int, len: off_t) -> c_int {
    truncate_common(fd, len)
}

#[no_mangle]
pub unsafe extern "C" fn ftruncate(fd: c_int, len: off_t) -> c_int {
    truncate_common(fd, len)
}

#[no_mangle]
pub unsafe extern "C" fn rename(old: *const c_char, new: *const c_char) -> c_int {
    if DISK_ACTIVE.load(Relaxed) {
        match on_mutation("rename", cstr_bytes(new), None, 0) {
            Verdict::Pass => {}
            _ => die(),
        }
    }
    libc::syscall(
        libc::SYS_renameat,
        libc::AT_FDCWD,
        old,
        libc::AT_FDCWD,
        new,
    ) as c_int
}

#[no_mangle]
pub unsafe extern "C" fn unlink(path: *const c_char) -> c_int {
    if DISK_ACTIVE.load(Relaxed) {
        match on_mutation("unlink", cstr_bytes(path), None, 0) {
            Verdict::Pass => {}
            _ => die(),
        }
    }
    libc::syscall(libc::SYS_unlinkat, libc::AT_FDCWD, path, 0) as c_int
}

#[no_mangle]
pub unsafe extern "C" fn rmdir(path: *const c_char) -> c_int {
    if DISK_ACTIVE.load(Relaxed) {
        match on_mutation("rmdir", cstr_bytes(path), None, 0) {
            Verdict::Pass => {}
            _ => die(),
        }
    }
    libc::syscall(
        libc::SYS_unlinkat,
        libc::AT_FDCWD,
        path,
        libc::AT_REMOVEDIR,
    ) as c_int
}

#[no_mangle]
pub unsafe extern "C" fn unlinkat(
    dirfd: c_int,
    path: *const c_char,
    flags: c_int,
) -> c_int {
    if DISK_ACTIVE.load(Relaxed) {
        // resolve dirfd-relative names (std's remove_dir_all uses them)
        let name = cstr_bytes(path);
        let mut full = Vec::new();
        if dirfd != libc::AT_FDCWD && !name.starts_with(b"/") {
            let mut p = [0u8; 512];
            let l = fd_path(dirfd, &mut p);
            full.extend_from_slice(&p[..l]);
            full.push(b'/');
        }
        full.extend_from_slice(name);
        match on_mutation("unlink", &full, None, 0) {
            Verdict::Pass => {}
            _ => die(),
        }
    }
    libc::syscall(libc::SYS_unlinkat, dirfd, path, flags) as c_int
}

#[no_mangle]
pub unsafe extern "C" fn mkdir(path: *const c_char, mode: libc::mode_t) -> c_int {
    if DISK_ACTIVE.load(Relaxed) {
        match on_mutation("mkdir", cstr_bytes(path), None, 0) {
            Verdict::Pass => {}
            _ => die(),
        }
    }
    libc::syscall(libc::SYS_mkdirat, libc::AT_FDCWD, path, mode as c_uint)
        as c_int
}

unsafe fn open_common(
    dirfd: c_int,
    path: *const c_char,
    flags: c_int,
    mode: c_uint,
) -> c_int {
    if DISK_ACTIVE.load(Relaxed)
        && (flags & (libc::O_TRUNC | libc::O_CREAT)) != 0
        && dirfd == libc::AT_FDCWD
    {
        let p = cstr_bytes(path);
        // creation of a missing file / truncation of an existing one is a
        // mutation; a no-op O_CREAT on an existing file is not.
        let mut st: libc::stat = std::mem::zeroed();
        let exists = libc::syscall(
            libc::SYS_newfstatat,
            libc::AT_FDCWD,
            path,
            &mut st as *mut libc::stat,
            0,
        ) == 0;
        let mutates = if exists {
            (flags & libc::O_TRUNC) != 0 && st.st_size > 0
        } else {
            (flags & libc::O_CREAT) != 0
        };
        if mutates {
            let kind = if exists { "open_trunc" } else { "create" };
            match on_mutation(kind, p, None, 0) {
                Verdict::Pass => {}
                _ => die(),
            }
        }
    }
    libc::syscall(libc::SYS_openat, dirfd, path, flags, mode) as c_int
}

#[no_mangle]
pub unsafe extern "C" fn open64(
    path: *const c_char,
    flags: c_int,
    mode: c_uint,
) -> c_int {
    open_common(libc::AT_FDCWD, path, flags, mode)
}

#[no_mangle]
pub unsafe extern "C" fn open(
    path: *const c_char,
    flags: c_int,
    mode: c_uint,
) -> c_int {
    open_common(libc::AT_FDCWD, path, flags, mode)
}

#[no_mangle]
pub unsafe extern "C" fn openat64(
    dirfd: c_int,
    path: *const c_char,
    flags: c_int,
    mode: c_uint,
) -> c_int {
    open_common(dirfd, path, flags, mode)
}

#[no_mangle]
pub unsafe extern "C" fn openat(
    dirfd: c_int,
    path: *const c_char,
    flags: c_int,
    mode: c_uint,
) -> c_int {
    open_common(dirfd, path, flags, mode)
}

/// `std::fs::copy` tries `copy_file_range`, then `sendfile`, then a plain
/// read/write loop. Refusing the first two sends every copy through `write`,
/// so copies are traced, tapped and tearable like any other write.
#[no_mangle]
pub unsafe extern "C" fn copy_file_range(
    _fd_in: c_int,
    _off_in: *mut libc::off64_t,
    _fd_out: c_int,
    _off_out: *mut libc::off64_t,
    _len: size_t,
    _flags: c_uint,
) -> ssize_t {
    *libc::__errno_location() = libc::ENOSYS;
    -1
}

#[no_mangle]
pub unsafe extern "C" fn sendfile64(
    _out_fd: c_int,
    _in_fd: c_int,
    _offset: *mut libc::off64_t,
    _count: size_t,
) -> ssize_t {
    *libc::__errno_location() = libc::EINVAL;
    -1
}

#[no_mangle]
pub unsafe extern "C" fn sendfile(
    _out_fd: c_int,
    _in_fd: c_int,
    _offset: *mut off_t,
    _count: size_t,
) -> ssize_t {
    *libc::__errno_location() = libc::EINVAL;
    -1
}

#!/usr/bin/env python3
"""Regenerate /verif/MANIFEST.json from the table below (kept in one place so
the manifest stays schema-valid while checks are added)."""
import json, subprocess, os

HERE = os.path.dirname(os.path.dirname(os.path.abspath(__file__)))

def hook_commits():
    try:
        out = subprocess.check_output(
            ["git", "-C", "/repo", "log", "--format=%H %s"], text=True)
    except Exception:
        return []
    return [l.split()[0] for l in out.splitlines() if "verif hook" in l]

CHECKS = {
 "C03": dict(cat="exploration", design="DESIGN.md section 6 C03",
   text="Multi-device worlds in which every plaintext position of every secret kind, custom fields, comments, attachments' content and names, folder descriptions carries a unique high-entropy marker; account password, folder passwords and the device signing key are learned from the account. After every step every marker is searched (raw, hex, base64/base64url at three alignments, UTF-16, lower-cased) in three channels: every byte written under any data directory (write/pwrite interposition: temp and deleted files included), every file of every client and the server (vaults, logs, sqlite + WAL, exported backup archives), every request/response body on the simulated network.",
   note="Pairing messages (relay websocket) and the audit log provider are outside the simulated world; 'holding every byte the server received is not enough' is covered by the byte search over the server directory and all wire buffers, not by an attacker decode attempt. A sensitivity self-test (declaring a clear-text folder name secret) fires on disk, file and wire channels. Sampling only.",
   tech="deterministic simulation with byte-level monitors on disk writes (libc interposition), files and wire buffers"),
 "C11": dict(cat="exploration", design="DESIGN.md section 6 C11",
   text="The adversary is a fault source of the simulated network: at seeded points of multi-device histories it injects the whole product of 15 route-methods x up to 9 invalid credential forms (bodies as a trusted device would send them) into the real axum router; each must be answered 4xx and leave every account's logs and the blob listing unchanged. A second account, excluded by a per-run access configuration (allow list without it / deny list / both lists), must be refused on every endpoint with its own valid credentials; a key is trusted (served: positive control), revoked, then refused; legitimate syncs keep working.",
   note="The websocket and relay routes are not compiled into the simulated server (features listen/pairing off). Sampling over histories, enumeration over the route x credential product at each injection point.",
   tech="deterministic simulation: adversarial transport injecting forged requests into the in-process server router, state-unchanged oracle"),

 "C13": dict(cat="fault_enumeration", design="DESIGN.md section 6 C13",
   text="For seeded histories and each target operation a twin child process traces the N mutating file-system calls of the operation; for every crash point k<=N (and tear offsets of writes) a crash child runs the same operation on a byte-identical copy and is killed with _exit inside the k-th interposed libc call after j bytes; the orchestrator then opens the crashed directory the normal way: sign-in must succeed, every event log must equal its before- or after-state, every folder must equal the replay of its log and its persisted vault. Both backends (SQLite's own journal/WAL writes are crash points too). Targets: secret and folder edits, compaction, folder password change and, in a third of the runs, a force merge (replace-all of a folder log + vault rewrite). Snapshots of the data directory are taken through SQLite (VACUUM INTO) so that twin and crash children start from the same closed database.",
   note="Process crash, not power loss. The unchanged tree violates the property broadly (no atomic commit across vault and log, in-place rewrites); the root causes are listed as known findings by (backend, class) pattern, so the check reports classes that do not occur today (e.g. emptied / missing / unreadable logs, sqlite accounts that no longer open). Merge application and server-side storage are not crashed yet.",
   tech="deterministic simulation: crash-point enumeration by libc interposition (_exit at the k-th mutating call, torn writes), twin run oracle"),

 "C10": dict(cat="exploration", design="DESIGN.md section 6 C10",
   text="Single-device histories with re-keying on both backends, all ciphers and KDFs; monitors: nonce multiset over every AEAD blob ever stored, after every step; fault enumeration on stored blobs at the end: every blob decrypts under the folder key, 14 mutations per blob (nonce / ciphertext / tag bit flips, truncation, extension, tag removal, swaps with another blob's nonce or ciphertext) must fail; other folders' passwords must not verify, same password + fresh salt must not decrypt; stored bytes flipped on disk / in sqlite columns and read back through the public API after a restart must yield an error.",
   note="X25519 shared folders are not generated. Nonce reuse is detected as 'same nonce, different ciphertext' (identical (nonce, ciphertext) pairs are legitimate copies of one encryption). Sampling only.",
   tech="deterministic simulation + stored-byte fault enumeration (bit flips, structural edits) with error-or-value oracle"),
 "C12": dict(cat="exploration", design="DESIGN.md section 6 C12",
   text="Single-device histories (flags, renames, descriptions, deletes) interleaved with compact_folder / compact_account / change_folder_password / change_account_password / change_cipher in any order and repetition, with restarts: data unchanged, log == one creation event + one per live secret, old password dead / new password works (also from a fresh instance), no stored blob decrypts under the old derived key, replay == served == mirror.",
   note="Raw free pages inside the sqlite file are not inspected (logical blobs only). Sampling only.",
   tech="deterministic simulation: seeded histories with re-key operations vs model, old-key decryption attempts on all stored blobs"),
 "C16": dict(cat="fault_enumeration", design="DESIGN.md section 6 C16",
   text="Accounts produced by seeded histories on both backends: the integrity report must be clean and complete on the untouched account; then single content bytes of stored vault rows (meta / secret blobs) and event records (payload, commit hash) are flipped one at a time (file bytes / sqlite columns) and the report must contain a failure for the affected folder; external file blobs: the file report must be clean, a flipped byte or a removed blob must be reported for that file; on the file-system backend a removed vault or event-log file must be reported for that folder; the concurrent reports run with concurrency in {1,2,8} and must terminate.",
   note="Positions are sampled per run (a few per region), not every byte; external file blobs and removals of whole vault/log files are not yet mutated. Sampling over accounts, enumeration over regions.",
   tech="deterministic simulation + stored-byte fault injection with report-must-flag oracle"),

 "C02": dict(cat="exploration", design="DESIGN.md section 6 C02",
   text="2-3 simulated devices and the real server: after every step on every device, for every folder, decrypt(replay of the persisted event log) == folder served by the account == decrypt(persisted vault mirror) (name, flags, description, ids, meta, values), plus replay-until-head. Histories mix local edits with checked merges, auto merges (same ids edited on both sides), force merges and compaction, on both backends.",
   note="Replay-until-commit is checked at the head commit only (earlier commits are covered indirectly because the check runs after every step). Known findings listed in known_findings.json are reported as KNOWN-FINDING. Sampling only.",
   tech="deterministic simulation: multi-device histories, model-free three-way equality oracle after every step"),
 "C04": dict(cat="exploration", design="DESIGN.md section 6 C04",
   text="2-3 devices + real server behind the in-process router; seeded histories of edits (all log types), offline spans, syncs in any order, overlapping syncs under the request scheduler, lost requests/responses, clock skew and ties, and in a quarter of the runs a divergence of the files event log (external files created on two devices while apart); then quiescence rounds. Oracles: a sync that reports success leaves the device's per-log status equal to the server's; within 2n+2 rounds every replica reports the same status and serves the same decrypted folders. Violations carry a mechanically derived root-cause class.",
   note="Liveness is measured in rounds of simulated syncs, never wall time. Several genuine defects remain and are listed as known findings (identical events, device-log divergence, concurrent history rewrites, multi-phase success); their classes are masked, all others are reported. Sampling only.",
   tech="deterministic simulation: seeded multi-device histories, network fault injection, bounded-round convergence oracle"),
 "C05": dict(cat="exploration", design="DESIGN.md section 6 C05",
   text="Same worlds without history rewrites (incl. the files-log divergence of C04): the harness records every record each device committed locally; at convergence every log on every replica must contain, as a multiset of commit hashes, the shared prefix plus the max-union of the devices' own commits (identical independent events count once), nothing foreign, shared prefix untouched.",
   note="Order inside the merged region is not checked beyond prefix preservation; the semantic last-writer-wins corollary is covered through C04's content equality and C02. Sampling only.",
   tech="deterministic simulation: recorded commit history vs converged logs (multiset / prefix oracle)"),
 "C08": dict(cat="exploration", design="DESIGN.md section 6 C08",
   text="At every sync point of multi-device histories, for every ordered pair of replicas and every log: CommitTree::compare(head of other) vs the prefix relation on the raw leaf sequences (soundness and completeness), single-leaf proofs at every index verified against the other replica (other lengths included), and the real ancestor scan through client and server vs the true longest common prefix.",
   note="Decided on replica pairs reachable by simulated histories (thousands of distinct pairs per run batch), not on all sequence pairs; scan paging beyond 32 events is not reached. Sampling only.",
   tech="deterministic simulation: cross-replica invariant over reachable log pairs"),
 "C09": dict(cat="exploration", design="DESIGN.md section 6 C09",
   text="All online devices call sync() at once; every request of the real client parks at the simulated transport and a seeded scheduler (uniform or PCT-like) releases exactly one at a time into the real server router. After every delivery every server log must still contain every previously accepted event; every sync call must end (ok / conflict / error) within a delivery budget; afterwards the sequential quiescence rounds must converge.",
   note="Interleaving granularity is one request (the shipped handler holds the per-account write lock for a whole request). Distinct delivery sequences are counted as cases. Sampling, not exhaustive enumeration.",
   tech="deterministic simulation: seeded request-level scheduler over concurrent syncs, monotonicity invariant after each delivery"),
 "C20": dict(cat="exploration", design="DESIGN.md section 6 C20",
   text="After every step on every device of the multi-device worlds (local edits, moves, archive, folder add/remove, merges replaying create/update/delete of the same ids, the whole life cycle of a folder seen only through merges, restarts): search index documents == one per live secret with current label/tags/kind/favourite, counters == recount, label queries return exactly live matches.",
   note="The recount is computed from what the account serves; archived secrets are excluded from kind counters by design. Sampling only.",
   tech="deterministic simulation: incremental index vs recount after every step"),
 "C01": dict(cat="exploration", design="DESIGN.md section 6 C01",
   text="One simulated device drives the real LocalAccount through seeded histories over the whole operation alphabet (15 secret kinds, custom fields, empty/large values, folder ops, folder-level creates with caller-chosen, re-used and resurrected ids) with sign-out/sign-in and restarts from persisted storage at arbitrary positions; after every step everything the account serves is compared with a sequential model, on both backends and both ciphers. Exploration fits: the guarantee is over histories x configurations.",
   note="Re-use of one secret id in two different folders is excluded (ids are account-wide unique by design; the sqlite schema enforces it). Timestamps inside meta data are not compared. Sampling only.",
   tech="deterministic simulation: seeded operation histories with restart injection vs sequential reference model"),
 "C06": dict(cat="exploration", design="DESIGN.md section 6 C06",
   text="Seeded histories of event-log operations are applied in lock-step to the real file-system and sqlite event logs (12 co-resident logs) and to a sequential model; after every step storage, in-memory tree, a re-opened instance, forward/reverse streams and every *other* log are compared. Exploration is the right level: the property is a refinement over operation histories, and the simulator reaches duplicate hashes, multi-record rewinds, co-resident logs and cross-backend agreement that unit tests never sample.",
   note="Trusts the harness model of append/rewind/replace semantics, SQLite itself and tmpfs. Sampling only.",
   tech="deterministic simulation: seeded operation histories vs sequential reference model, lock-step on both backends"),
 "C07": dict(cat="exploration", design="DESIGN.md section 6 C07",
   text="Same lock-step log driver biased toward refusals: checked patches with checkpoints from current/earlier/sibling/forged heads (ground truth = sequence equality in the model, not the code's own root comparison), rewinds to any depth or absent targets, replace-all with wrong checkpoints; every refusal is followed by a byte-for-byte comparison of the record stream and tree with the state before.",
   note="Log-level half (a) of the design; the protocol-level half (stale requests against server and client merge paths) rides on the network world when present. Sampling only.",
   tech="deterministic simulation: seeded request/fault histories, refusal oracle against a sequential model"),
 "C15": dict(cat="fault_enumeration", design="DESIGN.md section 6 C15",
   text="Real histories and syncs produce the artefacts a hostile or damaged input would replace (event-log files of every log type, vault files, event payloads of every event type, request/response bodies of every sync message kind, a backup archive, a pairing URL); each is mutated by the fault kinds a disk or peer produces (truncation at every offset when small, single-bit flips, 32-bit length-field edits, byte substitution over 0..=255 at tag positions, splices, short garbage) and fed to the normal entry points (event log open + load_tree + forward/reverse iteration, decode::<T>, header readers, wire decode, archive manifest reader, server handlers with a valid signature over the mutated body, hostile bearer tokens). Oracle: error or value; no panic (also in helper tasks, via a panic hook), no hang (20 s), peak allocation bounded in the input size (counting global allocator), the server answers the next valid request.",
   note="Enumeration over mutation positions for small artefacts, seeded sampling for large ones; sampling over the histories that produce the artefacts. The allocation bound allows the codec's own 16 MiB max_buffer cap. One panic inside the third-party zip parser (overflow-check builds only) is a known finding.",
   tech="deterministic simulation: fault injection on stored bytes and wire buffers (bit flips, truncation, length-field edits, splices) with panic / hang / allocation monitors"),

 "C17": dict(cat="exploration", design="DESIGN.md section 6 C17",
   text="Two devices of one account and the real server; one device edits file secrets whose content is an external encrypted blob (create with several sizes, replace content, replace by embedded content, meta-only update, move between folders, archive/unarchive, delete secret, delete folder), both devices sync through the real sync path, blob transfer is driven against the real upload/download/move/delete/compare routes of the server router, and damaged or hostile uploads are injected as transport faults (altered byte, truncated, empty, connection reset mid-body, valid bytes under another name, appended bytes, other content for an existing name); correct uploads arrive as two-part body streams with an observer of the server's own blob listing in between (a partially received file must never be exposed under its content-addressed name). After every step: replay(file event log) == blobs named by the live file secrets; blobs on disk == replay(file log) on the editing device and, once transfers settled and logs converged, on the second device and the server; every blob name == SHA-256(bytes); decrypt(blob) == original content; a refused upload leaves the server's file tree byte-for-byte unchanged.",
   note="The retry / progress / cancellation machinery of sos_net's transfer queue is replaced by a sequential settle loop issuing the same requests (stub). Generated plans keep a single editing device, as the property quantifies; two-editor plans can be written by hand (observations/). age's scrypt calibration reads the simulated clock (slow simulated machine => small work factor). Sampling only.",
   tech="deterministic simulation: multi-device world with simulated transport, transfer faults (damaged / hostile uploads) and content-addressing oracles"),
 "C18": dict(cat="exploration", design="DESIGN.md section 6 C18",
   text="Single-device histories (both backends = archive v2 / v3, both ciphers, several folders with flags and descriptions, all secret kinds, 0-3 external attachments, restarts) end with export through the normal API, import into empty storage of the same backend, sign-in with the same password and comparison with the model (every decrypted secret, folder attributes, attachment blobs byte-for-byte, replay == served == mirror on the restored account). The archive is then damaged as a disk or hostile sender would (content byte of a checksummed entry or attachment, manifest checksum, entry removed, extra entries named ../x, files/<id>/../../../../x, ..\\..\\x, C:\\x, an absolute path, duplicate names, a manifest checksum cut to a proper prefix, all checksums emptied with every checksummed entry altered) and imported into fresh storage inside a sentinel directory: checksum mismatches must be rejected without leaving an account, nothing may be written outside the target, an accepted archive must restore the same content, the import must not panic.",
   note="Archive damage is stored-byte / hostile-peer fault injection at the end of simulated histories; v1 archives and cross-version upgrade imports are not driven. Sampling over histories, enumeration over the damage kinds per run.",
   tech="deterministic simulation: seeded account histories, export/import round trip against the sequential model, fault injection on archive entries with a directory-tree oracle"),

 "C19": dict(cat="exploration", design="DESIGN.md section 6 C19",
   text="The multi-device world (2-3 devices + real server) starts entirely on the file-system backend; at seeded positions of seeded histories (edits of all kinds, folders with flags / descriptions, deleted folders, trusted devices, external attachments, offline spans, syncs) a device signs out, upgrade_accounts runs as a dry run (the data directory must stay byte-for-byte identical) and for real (keep_stale_files drawn), the device reopens on the database backend and the history continues with the ordinary sync traffic; in a third of the runs the stopped server's storage is upgraded (server layout) and restarted on sqlite. At each upgrade: SyncStatus per log (root, length) before == after; the upgraded account serves what a fresh file-system account over the same storage served right before; replay(log) == served == persisted vault unless the file-system account already disagreed; trusted devices and external blobs unchanged; a device that equalled its server before the upgrade syncs successfully afterwards and still equals it.",
   note="Global and account preferences and the server-origin list are written through the file-system backend before each upgrade and compared through sqlite afterwards; in about 3/4 of the upgrades a second account (own preferences, server list sharing a URL) lives in the same data directory and is compared too; several accounts in the server layout are not generated; 'same history on either backend gives the same account' is decided by C01/C06 (both backends against one model). Sampling only.",
   tech="deterministic simulation: multi-device world with upgrade steps at seeded positions (synced / unsynced state, client and server layouts), before/after oracles and continued sync traffic"),

}

NOT_YET = {
}

NA = {
 "C14": "pure function of its input (decode . encode = id, deterministic encoding): no schedule, clock, fault or interleaving for a simulator to own; deciding it is structure-aware input generation (property-based testing), outside this technique. See DESIGN.md section 6 C14.",
}

def main():
    props = [json.loads(l)["id"] for l in open(os.path.join(HERE, "properties.jsonl"))]
    checks = []
    for pid in props:
        if pid in CHECKS:
            c = CHECKS[pid]
            checks.append({
                "property_id": pid,
                "quick_cmd": f"bin/check {pid} quick",
                "thorough_cmd": f"bin/check {pid} thorough",
                "evidence_file": f"evidence/{pid}.json",
                "replay_cmd_template": "bin/check --replay {path}",
                "engine": "sossim",
                "level_claimed": {"category": c["cat"], "text": c["text"], "design_ref": c["design"]},
                "level_note": c["note"],
                "technique": c["tech"],
            })
    na = []
    for pid in props:
        if pid in CHECKS:
            continue
        if pid in NA:
            na.append({"property_id": pid, "reason": NA[pid]})
        else:
            na.append({"property_id": pid, "reason": NOT_YET.get(pid, "not claimed yet: the simulator world this property needs is not built at this commit (see DESIGN.md section 10 build order); no check is registered rather than a weaker technique being substituted")})
    m = {
        "version": 1,
        "setup_cmd": "bin/setup",
        "hooks": {
            "guard": "--cfg sos_verif (rustc cfg)",
            "enable": "RUSTFLAGS/--cfg sos_verif set in /verif/sim/.cargo/config.toml; the simulator workspace builds /repo/crates/* as path dependencies",
            "baseline_off_cmd": "cd /repo && cargo nextest run --workspace --no-fail-fast --test-threads 8 --offline || cargo test --workspace --no-fail-fast --offline",
            "source_commits": hook_commits(),
            "add_only": True,
        },
        "engines": [{
            "name": "sossim",
            "path": "sim/",
            "serves_properties": sorted(CHECKS.keys()),
            "kind_free_text": "deterministic simulator: one seeded run per child process; OS randomness, wall clock and mutating file-system calls interposed at the libc symbol level; in-process server router; seeded workload/schedule/fault generation; ddmin minimisation; replay files",
        }],
        "checks": checks,
        "not_applicable": na,
        "notes": "exit codes: 0 held (possibly with KNOWN-FINDING lines), 1 VIOLATION, 2 harness error. VERIF_SEED / VERIF_TIER / VERIF_RUNS / VERIF_JOBS are honoured. Known findings: known_findings.json.",
    }
    json.dump(m, open(os.path.join(HERE, "MANIFEST.json"), "w"), indent=1)
    print("wrote MANIFEST.json with", len(checks), "checks;", len(na), "not claimed")

main()

#!/usr/bin/env python3
"""Regenerate /verif/MANIFEST.json from the table below (kept in one place so
the manifest stays schema-valid while checks are added)."""
import json, subprocess, os

HERE = os.path.dirname(os.path.dirname(os.path.abspath(__file__)))

def hook_commits():
    try:
        out = subprocess.check_output(
            ["git", "-C", "/repo", "log", "--format=%H %s"], text=True)
    except Exception:
        return []
    return [l.split()[0] for l in out.splitlines() if "verif hook" in l]

CHECKS = {
 "C01": dict(cat="exploration", design="DESIGN.md section 6 C01",
   text="One simulated device drives the real LocalAccount through seeded histories over the whole operation alphabet (15 secret kinds, custom fields, empty/large values, folder ops, folder-level creates with caller-chosen, re-used and resurrected ids) with sign-out/sign-in and restarts from persisted storage at arbitrary positions; after every step everything the account serves is compared with a sequential model, on both backends and both ciphers. Exploration fits: the guarantee is over histories x configurations.",
   note="Re-use of one secret id in two different folders is excluded (ids are account-wide unique by design; the sqlite schema enforces it). Timestamps inside meta data are not compared. Sampling only.",
   tech="deterministic simulation: seeded operation histories with restart injection vs sequential reference model"),
 "C06": dict(cat="exploration", design="DESIGN.md section 6 C06",
   text="Seeded histories of event-log operations are applied in lock-step to the real file-system and sqlite event logs (12 co-resident logs) and to a sequential model; after every step storage, in-memory tree, a re-opened instance, forward/reverse streams and every *other* log are compared. Exploration is the right level: the property is a refinement over operation histories, and the simulator reaches duplicate hashes, multi-record rewinds, co-resident logs and cross-backend agreement that unit tests never sample.",
   note="Trusts the harness model of append/rewind/replace semantics, SQLite itself and tmpfs. Sampling only.",
   tech="deterministic simulation: seeded operation histories vs sequential reference model, lock-step on both backends"),
 "C07": dict(cat="exploration", design="DESIGN.md section 6 C07",
   text="Same lock-step log driver biased toward refusals: checked patches with checkpoints from current/earlier/sibling/forged heads (ground truth = sequence equality in the model, not the code's own root comparison), rewinds to any depth or absent targets, replace-all with wrong checkpoints; every refusal is followed by a byte-for-byte comparison of the record stream and tree with the state before.",
   note="Log-level half (a) of the design; the protocol-level half (stale requests against server and client merge paths) rides on the network world when present. Sampling only.",
   tech="deterministic simulation: seeded request/fault histories, refusal oracle against a sequential model"),
}

NOT_YET = {
}

NA = {
 "C14": "pure function of its input (decode . encode = id, deterministic encoding): no schedule, clock, fault or interleaving for a simulator to own; deciding it is structure-aware input generation (property-based testing), outside this technique. See DESIGN.md section 6 C14.",
}

def main():
    props = [json.loads(l)["id"] for l in open(os.path.join(HERE, "properties.jsonl"))]
    checks = []
    for pid in props:
        if pid in CHECKS:
            c = CHECKS[pid]
            checks.append({
                "property_id": pid,
                "quick_cmd": f"bin/check {pid} quick",
                "thorough_cmd": f"bin/check {pid} thorough",
                "evidence_file": f"evidence/{pid}.json",
                "replay_cmd_template": "bin/check --replay {path}",
                "engine": "sossim",
                "level_claimed": {"category": c["cat"], "text": c["text"], "design_ref": c["design"]},
                "level_note": c["note"],
                "technique": c["tech"],
            })
    na = []
    for pid in props:
        if pid in CHECKS:
            continue
        if pid in NA:
            na.append({"property_id": pid, "reason": NA[pid]})
        else:
            na.append({"property_id": pid, "reason": NOT_YET.get(pid, "not claimed yet: the simulator world this property needs is not built at this commit (see DESIGN.md section 10 build order); no check is registered rather than a weaker technique being substituted")})
    m = {
        "version": 1,
        "setup_cmd": "bin/setup",
        "hooks": {
            "guard": "--cfg sos_verif (rustc cfg)",
            "enable": "RUSTFLAGS/--cfg sos_verif set in /verif/sim/.cargo/config.toml; the simulator workspace builds /repo/crates/* as path dependencies",
            "baseline_off_cmd": "cd /repo && cargo nextest run --workspace --no-fail-fast --test-threads 8 --offline || cargo test --workspace --no-fail-fast --offline",
            "source_commits": hook_commits(),
            "add_only": True,
        },
        "engines": [{
            "name": "sossim",
            "path": "sim/",
            "serves_properties": sorted(CHECKS.keys()),
            "kind_free_text": "deterministic simulator: one seeded run per child process; OS randomness, wall clock and mutating file-system calls interposed at the libc symbol level; in-process server router; seeded workload/schedule/fault generation; ddmin minimisation; replay files",
        }],
        "checks": checks,
        "not_applicable": na,
        "notes": "exit codes: 0 held (possibly with KNOWN-FINDING lines), 1 VIOLATION, 2 harness error. VERIF_SEED / VERIF_TIER / VERIF_RUNS / VERIF_JOBS are honoured. Known findings: known_findings.json.",
    }
    json.dump(m, open(os.path.join(HERE, "MANIFEST.json"), "w"), indent=1)
    print("wrote MANIFEST.json with", len(checks), "checks;", len(na), "not claimed")

main()
